#!/usr/bin/env python3
"""Compare a `cargo test --workspace --no-fail-fast --offline` log with BASELINE.json's stable_pass list.
usage: baseline_compare.py <cargo-test.log>    exit 0 iff every stable_pass test passed"""
import json, re, sys
b = json.load(open('/root/.vp/BASELINE.json'))
ok = set()
for line in open(sys.argv[1], errors='replace'):
    m = re.match(r'test (\S+) \.\.\. (\w+)', line)
    if m and m.group(2) == 'ok':
        ok.add(m.group(1))
missing = [t for t in b['stable_pass'] if t.split('::', 1)[1] not in ok and t.split('::', 2)[-1] not in ok]
print(f"stable_pass={len(b['stable_pass'])} passed_now={len(b['stable_pass'])-len(missing)} missing={len(missing)}")
for t in missing[:40]:
    print("  MISSING", t)
sys.exit(1 if missing else 0)
