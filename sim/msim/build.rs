fn main() {
    // Export the executable's libc overrides dynamically so that the symbols std looks up
    // with dlsym (getrandom, statx) resolve to the simulator's definitions.
    println!("cargo:rustc-link-arg-bins=-rdynamic");
    println!("cargo:rerun-if-changed=build.rs");
}
