//! Small deterministic helpers: PRNG, digests.

#[derive(Clone, Debug)]
pub struct Rng(pub u64);

impl Rng {
    pub fn new(seed: u64) -> Rng {
        Rng(seed ^ 0x5DEECE66D1234567)
    }
    pub fn next(&mut self) -> u64 {
        self.0 = self.0.wrapping_add(0x9E3779B97F4A7C15);
        let mut z = self.0;
        z = (z ^ (z >> 30)).wrapping_mul(0xBF58476D1CE4E5B9);
        z = (z ^ (z >> 27)).wrapping_mul(0x94D049BB133111EB);
        z ^ (z >> 31)
    }
    /// uniform in 0..n (n > 0)
    pub fn below(&mut self, n: u64) -> u64 {
        self.next() % n
    }
    pub fn range(&mut self, lo: u64, hi_incl: u64) -> u64 {
        lo + self.below(hi_incl - lo + 1)
    }
    pub fn chance(&mut self, num: u64, den: u64) -> bool {
        self.below(den) < num
    }
    pub fn pick<'a, T>(&mut self, xs: &'a [T]) -> &'a T {
        &xs[self.below(xs.len() as u64) as usize]
    }
    pub fn shuffle<T>(&mut self, xs: &mut [T]) {
        for i in (1..xs.len()).rev() {
            let j = self.below(i as u64 + 1) as usize;
            xs.swap(i, j);
        }
    }
    /// an independent stream derived from this one and a label
    pub fn fork(&mut self, label: u64) -> Rng {
        let a = self.next();
        Rng(a ^ label.wrapping_mul(0xD6E8FEB86659FD93))
    }
}

pub fn fnv64(data: &[u8]) -> u64 {
    let mut h: u64 = 0xcbf29ce484222325;
    for &b in data {
        h ^= b as u64;
        h = h.wrapping_mul(0x100000001b3);
    }
    h
}

/// 128-bit digest rendered as hex (two differently seeded FNV-1a passes with avalanche).
pub fn digest(data: &[u8]) -> String {
    let a = fnv64(data);
    let mut h: u64 = 0x84222325cbf29ce4;
    for &b in data {
        h = (h ^ b as u64).wrapping_mul(0x9E3779B97F4A7C15);
        h ^= h >> 29;
    }
    format!("{:016x}{:016x}", a, h)
}

pub fn digest_strs(parts: &[String]) -> String {
    let mut v = vec![];
    for p in parts {
        v.extend_from_slice(&(p.len() as u64).to_le_bytes());
        v.extend_from_slice(p.as_bytes());
    }
    digest(&v)
}
