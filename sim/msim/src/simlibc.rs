//! The seam: definitions of libc entry points inside the simulator executable.
//!
//! Rust links `std` statically, so a `#[no_mangle] extern "C"` definition of `open64`,
//! `read`, `write`, `getrandom`, ... in this executable replaces libc's for every crate in
//! it (mamba, glob, std::fs, std::collections).  Outside a simulation context every
//! override passes straight through to the kernel.  Inside a context each call is
//! logged, counted, possibly perturbed (legal behaviour of a healthy kernel) or failed
//! (injected fault) according to an explicit plan, and is a scheduling point for the
//! seeded interleaving scheduler.
//!
//! Exactly one simulated thread runs at a time, so the *current* context is a
//! process-global pointer that the scheduler switches.
#![allow(clippy::missing_safety_doc)]

use libc::{c_char, c_int, c_long, c_uint, c_void, mode_t, size_t, ssize_t};
use std::collections::BTreeMap;
use std::ffi::CStr;
use std::sync::atomic::{AtomicBool, AtomicPtr, AtomicU64, Ordering};

// ---------------------------------------------------------------------------------------
// plan and context
// ---------------------------------------------------------------------------------------

/// One planned deviation from pass-through: the `nth` (0-based) call of class `call`
/// within the context gets `kind` with argument `arg`.
#[derive(Clone, Debug, serde::Serialize, serde::Deserialize, PartialEq, Eq)]
pub struct PlanItem {
    /// call class: open_r open_w open_stub read read_stub write mkdir opendir opendir_stub
    /// readdir readdir_stub statx
    pub call: String,
    pub nth: u32,
    /// short | eintr | errno
    pub kind: String,
    /// short: byte count; errno: errno value; eintr: unused
    #[serde(default)]
    pub arg: i64,
}

#[derive(Clone, Debug, Default, serde::Serialize, serde::Deserialize)]
pub struct Fired {
    pub seq: u64,
    pub call: String,
    pub nth: u32,
    pub kind: String,
    pub arg: i64,
    pub benign: bool,
    pub path: String,
}

#[derive(Clone, Debug)]
struct FdInfo {
    path: String,
    class: PathClass,
    write: bool,
    ord: u32,
}

#[derive(Clone, Copy, Debug, PartialEq, Eq)]
pub enum PathClass {
    Tree,
    Stub,
    Other,
}

struct DirBuf {
    entries: Vec<libc::dirent64>,
    next: usize,
    class: PathClass,
    path: String,
    fail_at: Option<(usize, i32)>,
}

pub struct Ctx {
    /// scratch root of the scenario (real path); rewritten to `$ROOT` in logs
    pub root: String,
    /// stub directory of the library (real path); rewritten to `$STUB`
    pub stub: String,
    /// entropy stream of the simulated thread that currently runs
    pub entropy: u64,
    pub readdir_seed: u64,
    pub plan: Vec<PlanItem>,
    pub crash_at: Option<u64>,
    pub disk_budget: Option<i64>,
    pub clock_value: i64,
    /// simulated nanoseconds that pass per clock reading (0 = time stands still)
    pub clock_step_ns: i64,
    clock_ns: i64,
    /// number of CPUs the process appears to have
    pub cpus: u32,
    pub cpu_calls: u32,
    pub pid_value: i32,
    /// != 0: an environment variable the process does not have may appear to be set (decided
    /// per name from this seed, the same answer every time it is asked)
    pub env_fuzz: u64,
    /// names asked for through getenv inside the context
    pub env_reads: Vec<String>,

    // results
    pub seq: u64,
    pub counters: BTreeMap<String, u32>,
    pub log: Vec<String>,
    /// call sequence number of each log line (not every intercepted call logs a line)
    pub log_seq: Vec<u64>,
    pub log_enabled: bool,
    pub write_set: Vec<(String, String)>,
    pub fired: Vec<Fired>,
    pub clock_calls: u32,
    pub pid_calls: u32,
    pub env_calls: u32,
    pub cwd_calls: u32,
    pub getrandom_calls: u32,
    pub bytes_written: u64,
    pub foreign_writes: u32,
    pub sched_points: u64,
    /// scheduling points that came from log statements of the code under test
    pub log_points: u64,

    fds: BTreeMap<c_int, FdInfo>,
    fd_ord: u32,
    dirs: BTreeMap<usize, DirBuf>,
}

impl Ctx {
    pub fn new(root: &str, stub: &str, entropy: u64, readdir_seed: u64) -> Ctx {
        Ctx {
            root: root.to_string(),
            stub: stub.to_string(),
            entropy,
            readdir_seed,
            plan: vec![],
            crash_at: None,
            disk_budget: None,
            clock_value: 1_700_000_000,
            clock_step_ns: 0,
            clock_ns: 0,
            cpus: 0,
            cpu_calls: 0,
            pid_value: 4242,
            seq: 0,
            counters: BTreeMap::new(),
            log: vec![],
            log_seq: vec![],
            log_enabled: true,
            env_fuzz: 0,
            env_reads: vec![],
            write_set: vec![],
            fired: vec![],
            clock_calls: 0,
            pid_calls: 0,
            env_calls: 0,
            cwd_calls: 0,
            getrandom_calls: 0,
            bytes_written: 0,
            foreign_writes: 0,
            sched_points: 0,
            log_points: 0,
            fds: BTreeMap::new(),
            fd_ord: 0,
            dirs: BTreeMap::new(),
        }
    }

    fn classify(&self, path: &str) -> PathClass {
        if !self.root.is_empty() && (path == self.root || path.starts_with(&format!("{}/", self.root))) {
            PathClass::Tree
        } else if !self.stub.is_empty() && path.starts_with(&self.stub) {
            PathClass::Stub
        } else if !path.starts_with('/') && !self.root.is_empty() {
            // relative paths are resolved against the cwd; steps run with cwd outside the tree,
            // so anything relative is foreign unless it resolves into the tree (handled by caller)
            PathClass::Other
        } else {
            PathClass::Other
        }
    }

    pub fn canon(&self, path: &str) -> String {
        if !self.root.is_empty() && path != "/" && self.root.starts_with(&format!("{}/", path.trim_end_matches('/'))) {
            // an ancestor of the scratch root: its real name is not part of the scenario
            let depth = self.root[path.trim_end_matches('/').len()..].matches('/').count();
            return format!("$ROOT-ANCESTOR{depth}");
        }
        if !self.root.is_empty() && path.starts_with(&self.root) {
            format!("$ROOT{}", &path[self.root.len()..])
        } else if !self.stub.is_empty() && path.starts_with(&self.stub) {
            format!("$STUB{}", &path[self.stub.len()..])
        } else {
            path.to_string()
        }
    }

    fn next_entropy(&mut self) -> u64 {
        self.entropy = self.entropy.wrapping_add(0x9E3779B97F4A7C15);
        let mut z = self.entropy;
        z = (z ^ (z >> 30)).wrapping_mul(0xBF58476D1CE4E5B9);
        z = (z ^ (z >> 27)).wrapping_mul(0x94D049BB133111EB);
        z ^ (z >> 31)
    }

    /// Count the call, return (nth, planned deviation if any).
    fn tick(&mut self, call: &str) -> (u32, Option<PlanItem>) {
        let c = self.counters.entry(call.to_string()).or_insert(0);
        let nth = *c;
        *c += 1;
        let hit = self
            .plan
            .iter()
            .find(|p| p.call == call && p.nth == nth)
            .cloned();
        (nth, hit)
    }

    fn note(&mut self, line: String) {
        if self.log_enabled {
            self.log.push(line);
            self.log_seq.push(self.seq);
        }
    }

    fn fire(&mut self, call: &str, nth: u32, item: &PlanItem, benign: bool, path: &str) {
        let seq = self.seq;
        let path = self.canon(path);
        self.fired.push(Fired {
            seq,
            call: call.to_string(),
            nth,
            kind: item.kind.clone(),
            arg: item.arg,
            benign,
            path,
        });
    }
}

static CURRENT: AtomicPtr<Ctx> = AtomicPtr::new(std::ptr::null_mut());
/// set while an override runs on behalf of the simulation, so that nothing it does itself
/// (allocation never calls these entry points, but defensive) is intercepted again
static BUSY: AtomicBool = AtomicBool::new(false);
/// calls that reached an override at all (in or out of context) — for the seam self-check
pub static OVERRIDE_HITS: AtomicU64 = AtomicU64::new(0);

/// Hook called at every intercepted call inside a context, *before* the call is performed:
/// the interleaving scheduler may park the calling thread here and run another one.
pub static SCHED_HOOK: AtomicPtr<()> = AtomicPtr::new(std::ptr::null_mut());

/// Install `ctx` as the current context (or none).  Returns the previous one.
pub fn set_current(ctx: *mut Ctx) -> *mut Ctx {
    CURRENT.swap(ctx, Ordering::SeqCst)
}

pub fn current() -> *mut Ctx {
    CURRENT.load(Ordering::SeqCst)
}

thread_local! {
    /// threads of the simulator itself (executor main thread, watchdog) never enter a context
    static BYPASS: std::cell::Cell<bool> = const { std::cell::Cell::new(false) };
}

pub fn set_bypass(on: bool) {
    BYPASS.with(|b| b.set(on));
}

struct Guard {
    ctx: *mut Ctx,
}

impl Drop for Guard {
    fn drop(&mut self) {
        BUSY.store(false, Ordering::SeqCst);
    }
}

/// Enter an override.  `None` => pass through untouched.
#[inline]
fn enter() -> Option<Guard> {
    OVERRIDE_HITS.fetch_add(1, Ordering::Relaxed);
    let p = CURRENT.load(Ordering::SeqCst);
    if p.is_null() {
        return None;
    }
    if BYPASS.with(|b| b.get()) {
        return None;
    }
    // scheduling point (may park this thread and switch CURRENT; re-read afterwards)
    let hook = SCHED_HOOK.load(Ordering::SeqCst);
    if !hook.is_null() {
        let f: fn() = unsafe { std::mem::transmute(hook) };
        f();
    }
    if BUSY.swap(true, Ordering::SeqCst) {
        return None;
    }
    let p = CURRENT.load(Ordering::SeqCst);
    if p.is_null() {
        BUSY.store(false, Ordering::SeqCst);
        return None;
    }
    unsafe {
        (*p).seq += 1;
        (*p).sched_points += 1;
        if let Some(c) = (*p).crash_at {
            if (*p).seq == c {
                crash(&mut *p);
            }
        }
    }
    Some(Guard { ctx: p })
}

/// A scheduling point that is not a libc call (the executor's `log` sink: every log statement
/// of the code under test).  Does not count as an intercepted call.
pub fn sched_point() {
    let p = CURRENT.load(Ordering::SeqCst);
    if p.is_null() || BYPASS.with(|b| b.get()) {
        return;
    }
    let hook = SCHED_HOOK.load(Ordering::SeqCst);
    if !hook.is_null() {
        let f: fn() = unsafe { std::mem::transmute(hook) };
        f();
    }
    let p = CURRENT.load(Ordering::SeqCst);
    if !p.is_null() {
        unsafe { (*p).log_points += 1 };
    }
}

/// Where the crash record goes (fd); set by the executor.
pub static CRASH_FD: AtomicU64 = AtomicU64::new(1);
pub static CRASH_WRITER: AtomicPtr<()> = AtomicPtr::new(std::ptr::null_mut());

fn crash(ctx: &mut Ctx) -> ! {
    let w = CRASH_WRITER.load(Ordering::SeqCst);
    if !w.is_null() {
        let f: fn(&mut Ctx) -> String = unsafe { std::mem::transmute(w) };
        let s = f(ctx);
        raw_write_all(CRASH_FD.load(Ordering::SeqCst) as c_int, s.as_bytes());
    }
    unsafe { libc::syscall(libc::SYS_exit_group, 137 as c_long) };
    loop {}
}

pub fn raw_write_all(fd: c_int, mut buf: &[u8]) {
    while !buf.is_empty() {
        let r = unsafe { libc::syscall(libc::SYS_write, fd as c_long, buf.as_ptr(), buf.len()) };
        if r <= 0 {
            if r < 0 && errno() == libc::EINTR {
                continue;
            }
            break;
        }
        buf = &buf[r as usize..];
    }
}

fn errno() -> c_int {
    unsafe { *libc::__errno_location() }
}

fn set_errno(e: c_int) {
    unsafe { *libc::__errno_location() = e };
}

unsafe fn cstr(p: *const c_char) -> String {
    if p.is_null() {
        return String::new();
    }
    CStr::from_ptr(p).to_string_lossy().into_owned()
}

fn errname(e: c_int) -> &'static str {
    match e {
        libc::EACCES => "EACCES",
        libc::EMFILE => "EMFILE",
        libc::ENOENT => "ENOENT",
        libc::EIO => "EIO",
        libc::ENOSPC => "ENOSPC",
        libc::EROFS => "EROFS",
        libc::EINTR => "EINTR",
        libc::EEXIST => "EEXIST",
        libc::ENOTDIR => "ENOTDIR",
        libc::EISDIR => "EISDIR",
        libc::EBADF => "EBADF",
        _ => "E?",
    }
}

fn res_str(r: i64) -> String {
    if r < 0 {
        format!("-{}", errname(errno()))
    } else {
        format!("{r}")
    }
}

/// Resolve a possibly relative path against the real cwd (raw syscall) for classification.
fn absolutize(path: &str) -> String {
    if path.starts_with('/') {
        return path.to_string();
    }
    let mut buf = [0u8; 4096];
    let r = unsafe { libc::syscall(libc::SYS_getcwd, buf.as_mut_ptr(), buf.len()) };
    if r <= 0 {
        return path.to_string();
    }
    let n = buf.iter().position(|&b| b == 0).unwrap_or(0);
    let cwd = String::from_utf8_lossy(&buf[..n]).into_owned();
    if path.is_empty() {
        cwd
    } else {
        format!("{}/{}", cwd.trim_end_matches('/'), path)
    }
}

// ---------------------------------------------------------------------------------------
// entropy
// ---------------------------------------------------------------------------------------

#[no_mangle]
pub unsafe extern "C" fn getrandom(buf: *mut c_void, buflen: size_t, flags: c_uint) -> ssize_t {
    match enter() {
        None => libc::syscall(libc::SYS_getrandom, buf, buflen, flags) as ssize_t,
        Some(g) => {
            let ctx = &mut *g.ctx;
            ctx.getrandom_calls += 1;
            let out = std::slice::from_raw_parts_mut(buf as *mut u8, buflen);
            let mut i = 0;
            while i < buflen {
                let v = ctx.next_entropy().to_le_bytes();
                for b in v {
                    if i < buflen {
                        out[i] = b;
                        i += 1;
                    }
                }
            }
            ctx.note(format!("getrandom {buflen}"));
            buflen as ssize_t
        }
    }
}

// ---------------------------------------------------------------------------------------
// open / close
// ---------------------------------------------------------------------------------------

unsafe fn do_open(dirfd: c_int, path: *const c_char, flags: c_int, mode: mode_t, sym: &str) -> c_int {
    let g = match enter() {
        None => return libc::syscall(libc::SYS_openat, dirfd as c_long, path, flags as c_long, mode as c_long) as c_int,
        Some(g) => g,
    };
    let ctx = &mut *g.ctx;
    let p = absolutize(&cstr(path));
    let class = ctx.classify(&p);
    let acc = flags & libc::O_ACCMODE;
    let write = acc == libc::O_WRONLY || acc == libc::O_RDWR || (flags & (libc::O_CREAT | libc::O_TRUNC)) != 0;
    let call = match (class, write) {
        (PathClass::Stub, false) => "open_stub",
        (_, false) => "open_r",
        (_, true) => "open_w",
    };
    let (nth, hit) = ctx.tick(call);
    if let Some(item) = hit {
        match item.kind.as_str() {
            "eintr" => {
                ctx.fire(call, nth, &item, true, &p);
                let line = format!("{sym} {} {} -> -EINTR (benign)", ctx.canon(&p), if write { "W" } else { "R" });
                ctx.note(line);
                set_errno(libc::EINTR);
                return -1;
            }
            "errno" => {
                ctx.fire(call, nth, &item, false, &p);
                let line = format!(
                    "{sym} {} {} -> -{} (fault)",
                    ctx.canon(&p),
                    if write { "W" } else { "R" },
                    errname(item.arg as c_int)
                );
                ctx.note(line);
                set_errno(item.arg as c_int);
                return -1;
            }
            _ => {}
        }
    }
    let existed = if write { raw_exists(&p) } else { true };
    let fd = libc::syscall(libc::SYS_openat, dirfd as c_long, path, flags as c_long, mode as c_long) as c_int;
    let saved = errno();
    if fd >= 0 {
        ctx.fd_ord += 1;
        let ord = ctx.fd_ord;
        ctx.fds.insert(fd, FdInfo { path: p.clone(), class, write, ord });
        if write {
            let what = if !existed {
                "create"
            } else if flags & libc::O_TRUNC != 0 {
                "truncate"
            } else {
                "openw"
            };
            let cp = ctx.canon(&p);
            ctx.write_set.push((what.to_string(), cp));
        }
        let line = format!(
            "{sym} {} {}{} -> fd#{}",
            ctx.canon(&p),
            if write { "W" } else { "R" },
            if flags & libc::O_TRUNC != 0 { "T" } else { "" },
            ord
        );
        ctx.note(line);
    } else {
        set_errno(saved);
        let line = format!("{sym} {} {} -> {}", ctx.canon(&p), if write { "W" } else { "R" }, res_str(-1));
        ctx.note(line);
        set_errno(saved);
    }
    fd
}

fn raw_exists(p: &str) -> bool {
    let c = match std::ffi::CString::new(p) {
        Ok(c) => c,
        Err(_) => return false,
    };
    let saved = errno();
    let r = unsafe { libc::syscall(libc::SYS_faccessat, libc::AT_FDCWD as c_long, c.as_ptr(), libc::F_OK as c_long) };
    set_errno(saved);
    r == 0
}

#[no_mangle]
pub unsafe extern "C" fn open64(path: *const c_char, flags: c_int, mode: mode_t) -> c_int {
    do_open(libc::AT_FDCWD, path, flags, mode, "open")
}

#[no_mangle]
pub unsafe extern "C" fn open(path: *const c_char, flags: c_int, mode: mode_t) -> c_int {
    do_open(libc::AT_FDCWD, path, flags, mode, "open")
}

#[no_mangle]
pub unsafe extern "C" fn openat64(dirfd: c_int, path: *const c_char, flags: c_int, mode: mode_t) -> c_int {
    do_open(dirfd, path, flags, mode, "open")
}

#[no_mangle]
pub unsafe extern "C" fn openat(dirfd: c_int, path: *const c_char, flags: c_int, mode: mode_t) -> c_int {
    do_open(dirfd, path, flags, mode, "open")
}

#[no_mangle]
pub unsafe extern "C" fn creat64(path: *const c_char, mode: mode_t) -> c_int {
    do_open(libc::AT_FDCWD, path, libc::O_CREAT | libc::O_WRONLY | libc::O_TRUNC, mode, "open")
}

#[no_mangle]
pub unsafe extern "C" fn close(fd: c_int) -> c_int {
    match enter() {
        None => libc::syscall(libc::SYS_close, fd as c_long) as c_int,
        Some(g) => {
            let ctx = &mut *g.ctx;
            let r = libc::syscall(libc::SYS_close, fd as c_long) as c_int;
            if let Some(info) = ctx.fds.remove(&fd) {
                ctx.note(format!("close fd#{}", info.ord));
            }
            r
        }
    }
}

// ---------------------------------------------------------------------------------------
// read / write
// ---------------------------------------------------------------------------------------

#[no_mangle]
pub unsafe extern "C" fn read(fd: c_int, buf: *mut c_void, count: size_t) -> ssize_t {
    let g = match enter() {
        None => return libc::syscall(libc::SYS_read, fd as c_long, buf, count) as ssize_t,
        Some(g) => g,
    };
    let ctx = &mut *g.ctx;
    let info = match ctx.fds.get(&fd).cloned() {
        Some(i) => i,
        None => return libc::syscall(libc::SYS_read, fd as c_long, buf, count) as ssize_t,
    };
    let call = if info.class == PathClass::Stub { "read_stub" } else { "read" };
    let (nth, hit) = ctx.tick(call);
    let mut n = count;
    if let Some(item) = hit {
        match item.kind.as_str() {
            "eintr" => {
                ctx.fire(call, nth, &item, true, &info.path);
                ctx.note(format!("read fd#{} {} -> -EINTR (benign)", info.ord, count));
                set_errno(libc::EINTR);
                return -1;
            }
            "errno" => {
                ctx.fire(call, nth, &item, false, &info.path);
                ctx.note(format!("read fd#{} {} -> -{} (fault)", info.ord, count, errname(item.arg as c_int)));
                set_errno(item.arg as c_int);
                return -1;
            }
            "short" => {
                if count > 0 {
                    let cap = (item.arg.max(1) as usize).min(count);
                    if cap < count {
                        ctx.fire(call, nth, &item, true, &info.path);
                        n = cap;
                    }
                }
            }
            _ => {}
        }
    }
    let r = libc::syscall(libc::SYS_read, fd as c_long, buf, n) as ssize_t;
    let saved = errno();
    ctx.note(format!("read fd#{} {}{} -> {}", info.ord, count, if n != count { format!(" (cut to {n})") } else { String::new() }, res_str(r as i64)));
    set_errno(saved);
    r
}

#[no_mangle]
pub unsafe extern "C" fn write(fd: c_int, buf: *const c_void, count: size_t) -> ssize_t {
    let g = match enter() {
        None => return libc::syscall(libc::SYS_write, fd as c_long, buf, count) as ssize_t,
        Some(g) => g,
    };
    let ctx = &mut *g.ctx;
    let info = match ctx.fds.get(&fd).cloned() {
        Some(i) => i,
        None => {
            // a write to something the step did not open itself (stdout, stderr, inherited fd)
            ctx.foreign_writes += 1;
            ctx.note(format!("write foreign-fd {count}"));
            return libc::syscall(libc::SYS_write, fd as c_long, buf, count) as ssize_t;
        }
    };
    let (nth, hit) = ctx.tick("write");
    let mut n = count;
    let mut why = String::new();
    if let Some(item) = hit {
        match item.kind.as_str() {
            "eintr" => {
                ctx.fire("write", nth, &item, false, &info.path);
                ctx.note(format!("write fd#{} {} -> -EINTR (fault)", info.ord, count));
                set_errno(libc::EINTR);
                return -1;
            }
            "errno" => {
                ctx.fire("write", nth, &item, false, &info.path);
                ctx.note(format!("write fd#{} {} -> -{} (fault)", info.ord, count, errname(item.arg as c_int)));
                set_errno(item.arg as c_int);
                return -1;
            }
            "short" => {
                if count > 1 {
                    let cap = (item.arg.max(1) as usize).min(count - 1);
                    ctx.fire("write", nth, &item, false, &info.path);
                    n = cap;
                    why = format!(" (short {n}, fault)");
                }
            }
            _ => {}
        }
    }
    if let Some(b) = ctx.disk_budget {
        if (n as i64) > b {
            let item = PlanItem { call: "write".into(), nth, kind: "disk_full".into(), arg: b };
            ctx.fire("write", nth, &item, false, &info.path);
            if b <= 0 {
                ctx.note(format!("write fd#{} {} -> -ENOSPC (disk budget, fault)", info.ord, count));
                set_errno(libc::ENOSPC);
                return -1;
            }
            n = b as usize;
            why = format!(" (disk budget {n}, fault)");
        }
    }
    let r = libc::syscall(libc::SYS_write, fd as c_long, buf, n) as ssize_t;
    let saved = errno();
    if r > 0 {
        ctx.bytes_written += r as u64;
        if let Some(b) = ctx.disk_budget.as_mut() {
            *b -= r as i64;
        }
    }
    ctx.note(format!("write fd#{} {}{} -> {}", info.ord, count, why, res_str(r as i64)));
    set_errno(saved);
    r
}

macro_rules! passthrough_fd_logged {
    ($name:ident, $sys:expr, ($($arg:ident : $ty:ty),*), $ret:ty, $label:expr) => {
        #[no_mangle]
        pub unsafe extern "C" fn $name(fd: c_int, $($arg: $ty),*) -> $ret {
            match enter() {
                None => libc::syscall($sys, fd as c_long, $($arg),*) as $ret,
                Some(g) => {
                    let ctx = &mut *g.ctx;
                    let r = libc::syscall($sys, fd as c_long, $($arg),*) as $ret;
                    let saved = errno();
                    if let Some(info) = ctx.fds.get(&fd).cloned() {
                        ctx.note(format!("{} fd#{} -> {}", $label, info.ord, res_str(r as i64)));
                        if info.write && ($label == "pwrite" || $label == "writev" || $label == "ftruncate") {
                            let cp = ctx.canon(&info.path);
                            ctx.write_set.push(($label.to_string(), cp));
                        }
                    }
                    set_errno(saved);
                    r
                }
            }
        }
    };
}

passthrough_fd_logged!(lseek64, libc::SYS_lseek, (off: i64, whence: c_int), i64, "lseek");
passthrough_fd_logged!(lseek, libc::SYS_lseek, (off: i64, whence: c_int), i64, "lseek");
passthrough_fd_logged!(pread64, libc::SYS_pread64, (buf: *mut c_void, n: size_t, off: i64), ssize_t, "pread");
passthrough_fd_logged!(pwrite64, libc::SYS_pwrite64, (buf: *const c_void, n: size_t, off: i64), ssize_t, "pwrite");
passthrough_fd_logged!(readv, libc::SYS_readv, (iov: *const libc::iovec, n: c_int), ssize_t, "readv");
passthrough_fd_logged!(writev, libc::SYS_writev, (iov: *const libc::iovec, n: c_int), ssize_t, "writev");
passthrough_fd_logged!(ftruncate64, libc::SYS_ftruncate, (len: i64), c_int, "ftruncate");
passthrough_fd_logged!(ftruncate, libc::SYS_ftruncate, (len: i64), c_int, "ftruncate");
passthrough_fd_logged!(fsync, libc::SYS_fsync, (), c_int, "fsync");
passthrough_fd_logged!(fdatasync, libc::SYS_fdatasync, (), c_int, "fdatasync");
passthrough_fd_logged!(fchmod, libc::SYS_fchmod, (mode: mode_t), c_int, "fchmod");

#[no_mangle]
pub unsafe extern "C" fn fstat64(fd: c_int, st: *mut libc::stat64) -> c_int {
    let empty = b"\0";
    match enter() {
        None => libc::syscall(libc::SYS_newfstatat, fd as c_long, empty.as_ptr(), st, libc::AT_EMPTY_PATH as c_long) as c_int,
        Some(g) => {
            let ctx = &mut *g.ctx;
            let r = libc::syscall(libc::SYS_newfstatat, fd as c_long, empty.as_ptr(), st, libc::AT_EMPTY_PATH as c_long) as c_int;
            let saved = errno();
            if let Some(info) = ctx.fds.get(&fd).cloned() {
                ctx.note(format!("fstat fd#{} -> {}", info.ord, res_str(r as i64)));
            }
            set_errno(saved);
            r
        }
    }
}

#[no_mangle]
pub unsafe extern "C" fn fstat(fd: c_int, st: *mut libc::stat64) -> c_int {
    fstat64(fd, st)
}

// ---------------------------------------------------------------------------------------
// stat family (by path)
// ---------------------------------------------------------------------------------------

#[no_mangle]
pub unsafe extern "C" fn statx(dirfd: c_int, path: *const c_char, flags: c_int, mask: c_uint, buf: *mut c_void) -> c_int {
    let g = match enter() {
        None => return libc::syscall(libc::SYS_statx, dirfd as c_long, path, flags as c_long, mask as c_long, buf) as c_int,
        Some(g) => g,
    };
    let ctx = &mut *g.ctx;
    let p = cstr(path);
    if p.is_empty() {
        // fstat-like
        let r = libc::syscall(libc::SYS_statx, dirfd as c_long, path, flags as c_long, mask as c_long, buf) as c_int;
        let saved = errno();
        if let Some(info) = ctx.fds.get(&dirfd).cloned() {
            ctx.note(format!("statx fd#{} -> {}", info.ord, res_str(r as i64)));
        }
        set_errno(saved);
        return r;
    }
    let abs = if dirfd == libc::AT_FDCWD || p.starts_with('/') {
        absolutize(&p)
    } else {
        // relative to an open directory stream (DirEntry::metadata)
        let base = ctx
            .dirs
            .iter()
            .find(|(k, _)| libc::dirfd(**k as *mut libc::DIR) == dirfd)
            .map(|(_, d)| d.path.clone())
            .unwrap_or_default();
        format!("{base}/{p}")
    };
    let class = ctx.classify(&abs);
    if class == PathClass::Tree {
        let (nth, hit) = ctx.tick("statx");
        if let Some(item) = hit {
            if item.kind == "errno" {
                ctx.fire("statx", nth, &item, false, &abs);
                let line = format!("statx {} -> -{} (fault)", ctx.canon(&abs), errname(item.arg as c_int));
                ctx.note(line);
                set_errno(item.arg as c_int);
                return -1;
            }
        }
    }
    let r = libc::syscall(libc::SYS_statx, dirfd as c_long, path, flags as c_long, mask as c_long, buf) as c_int;
    let saved = errno();
    let line = format!("statx {} -> {}", ctx.canon(&abs), res_str(r as i64));
    ctx.note(line);
    set_errno(saved);
    r
}

unsafe fn stat_common(path: *const c_char, st: *mut libc::stat64, flags: c_int, label: &str) -> c_int {
    match enter() {
        None => libc::syscall(libc::SYS_newfstatat, libc::AT_FDCWD as c_long, path, st, flags as c_long) as c_int,
        Some(g) => {
            let ctx = &mut *g.ctx;
            let p = absolutize(&cstr(path));
            let r = libc::syscall(libc::SYS_newfstatat, libc::AT_FDCWD as c_long, path, st, flags as c_long) as c_int;
            let saved = errno();
            let line = format!("{label} {} -> {}", ctx.canon(&p), res_str(r as i64));
            ctx.note(line);
            set_errno(saved);
            r
        }
    }
}

#[no_mangle]
pub unsafe extern "C" fn stat64(path: *const c_char, st: *mut libc::stat64) -> c_int {
    stat_common(path, st, 0, "stat")
}
#[no_mangle]
pub unsafe extern "C" fn stat(path: *const c_char, st: *mut libc::stat64) -> c_int {
    stat_common(path, st, 0, "stat")
}
#[no_mangle]
pub unsafe extern "C" fn lstat64(path: *const c_char, st: *mut libc::stat64) -> c_int {
    stat_common(path, st, libc::AT_SYMLINK_NOFOLLOW, "lstat")
}
#[no_mangle]
pub unsafe extern "C" fn lstat(path: *const c_char, st: *mut libc::stat64) -> c_int {
    stat_common(path, st, libc::AT_SYMLINK_NOFOLLOW, "lstat")
}

// ---------------------------------------------------------------------------------------
// namespace-changing calls
// ---------------------------------------------------------------------------------------

#[no_mangle]
pub unsafe extern "C" fn mkdir(path: *const c_char, mode: mode_t) -> c_int {
    let g = match enter() {
        None => return libc::syscall(libc::SYS_mkdir, path, mode as c_long) as c_int,
        Some(g) => g,
    };
    let ctx = &mut *g.ctx;
    let p = absolutize(&cstr(path));
    let (nth, hit) = ctx.tick("mkdir");
    if let Some(item) = hit {
        if item.kind == "errno" && !raw_exists(&p) {
            ctx.fire("mkdir", nth, &item, false, &p);
            let line = format!("mkdir {} -> -{} (fault)", ctx.canon(&p), errname(item.arg as c_int));
            ctx.note(line);
            set_errno(item.arg as c_int);
            return -1;
        }
    }
    let r = libc::syscall(libc::SYS_mkdir, path, mode as c_long) as c_int;
    let saved = errno();
    if r == 0 {
        let cp = ctx.canon(&p);
        ctx.write_set.push(("mkdir".to_string(), cp));
    }
    let line = format!("mkdir {} -> {}", ctx.canon(&p), res_str(r as i64));
    ctx.note(line);
    set_errno(saved);
    r
}

macro_rules! path_mutator1 {
    ($name:ident, $label:expr, |$p:ident| $call:expr) => {
        #[no_mangle]
        pub unsafe extern "C" fn $name($p: *const c_char) -> c_int {
            match enter() {
                None => $call as c_int,
                Some(g) => {
                    let ctx = &mut *g.ctx;
                    let s = absolutize(&cstr($p));
                    let r = $call as c_int;
                    let saved = errno();
                    let cp = ctx.canon(&s);
                    if r == 0 {
                        ctx.write_set.push(($label.to_string(), cp.clone()));
                    }
                    ctx.note(format!("{} {} -> {}", $label, cp, res_str(r as i64)));
                    set_errno(saved);
                    r
                }
            }
        }
    };
}

path_mutator1!(unlink, "unlink", |p| libc::syscall(libc::SYS_unlink, p));
path_mutator1!(rmdir, "rmdir", |p| libc::syscall(libc::SYS_rmdir, p));

#[no_mangle]
pub unsafe extern "C" fn unlinkat(dirfd: c_int, p: *const c_char, flags: c_int) -> c_int {
    match enter() {
        None => libc::syscall(libc::SYS_unlinkat, dirfd as c_long, p, flags as c_long) as c_int,
        Some(g) => {
            let ctx = &mut *g.ctx;
            let s = absolutize(&cstr(p));
            let r = libc::syscall(libc::SYS_unlinkat, dirfd as c_long, p, flags as c_long) as c_int;
            let saved = errno();
            let cp = ctx.canon(&s);
            if r == 0 {
                ctx.write_set.push(("unlink".to_string(), cp.clone()));
            }
            ctx.note(format!("unlinkat {} -> {}", cp, res_str(r as i64)));
            set_errno(saved);
            r
        }
    }
}

macro_rules! path_mutator2 {
    ($name:ident, $label:expr, |$a:ident, $b:ident| $call:expr) => {
        #[no_mangle]
        pub unsafe extern "C" fn $name($a: *const c_char, $b: *const c_char) -> c_int {
            match enter() {
                None => $call as c_int,
                Some(g) => {
                    let ctx = &mut *g.ctx;
                    let sa = absolutize(&cstr($a));
                    let sb = absolutize(&cstr($b));
                    let r = $call as c_int;
                    let saved = errno();
                    let (ca, cb) = (ctx.canon(&sa), ctx.canon(&sb));
                    if r == 0 {
                        ctx.write_set.push((format!("{}-from", $label), ca.clone()));
                        ctx.write_set.push((format!("{}-to", $label), cb.clone()));
                    }
                    ctx.note(format!("{} {} {} -> {}", $label, ca, cb, res_str(r as i64)));
                    set_errno(saved);
                    r
                }
            }
        }
    };
}

path_mutator2!(rename, "rename", |a, b| libc::syscall(libc::SYS_rename, a, b));
path_mutator2!(link, "link", |a, b| libc::syscall(libc::SYS_link, a, b));
path_mutator2!(symlink, "symlink", |a, b| libc::syscall(libc::SYS_symlink, a, b));

#[no_mangle]
pub unsafe extern "C" fn renameat(ofd: c_int, a: *const c_char, nfd: c_int, b: *const c_char) -> c_int {
    renameat2(ofd, a, nfd, b, 0)
}

#[no_mangle]
pub unsafe extern "C" fn renameat2(ofd: c_int, a: *const c_char, nfd: c_int, b: *const c_char, flags: c_uint) -> c_int {
    match enter() {
        None => libc::syscall(libc::SYS_renameat2, ofd as c_long, a, nfd as c_long, b, flags as c_long) as c_int,
        Some(g) => {
            let ctx = &mut *g.ctx;
            let sa = absolutize(&cstr(a));
            let sb = absolutize(&cstr(b));
            let r = libc::syscall(libc::SYS_renameat2, ofd as c_long, a, nfd as c_long, b, flags as c_long) as c_int;
            let saved = errno();
            let (ca, cb) = (ctx.canon(&sa), ctx.canon(&sb));
            if r == 0 {
                ctx.write_set.push(("rename-from".to_string(), ca.clone()));
                ctx.write_set.push(("rename-to".to_string(), cb.clone()));
            }
            ctx.note(format!("rename {} {} -> {}", ca, cb, res_str(r as i64)));
            set_errno(saved);
            r
        }
    }
}

#[no_mangle]
pub unsafe extern "C" fn truncate64(p: *const c_char, len: i64) -> c_int {
    match enter() {
        None => libc::syscall(libc::SYS_truncate, p, len) as c_int,
        Some(g) => {
            let ctx = &mut *g.ctx;
            let s = absolutize(&cstr(p));
            let r = libc::syscall(libc::SYS_truncate, p, len) as c_int;
            let saved = errno();
            let cp = ctx.canon(&s);
            if r == 0 {
                ctx.write_set.push(("truncate".to_string(), cp.clone()));
            }
            ctx.note(format!("truncate {} -> {}", cp, res_str(r as i64)));
            set_errno(saved);
            r
        }
    }
}

#[no_mangle]
pub unsafe extern "C" fn truncate(p: *const c_char, len: i64) -> c_int {
    truncate64(p, len)
}

#[no_mangle]
pub unsafe extern "C" fn chmod(p: *const c_char, mode: mode_t) -> c_int {
    match enter() {
        None => libc::syscall(libc::SYS_chmod, p, mode as c_long) as c_int,
        Some(g) => {
            let ctx = &mut *g.ctx;
            let s = absolutize(&cstr(p));
            let r = libc::syscall(libc::SYS_chmod, p, mode as c_long) as c_int;
            let saved = errno();
            let cp = ctx.canon(&s);
            if r == 0 {
                ctx.write_set.push(("chmod".to_string(), cp.clone()));
            }
            ctx.note(format!("chmod {} -> {}", cp, res_str(r as i64)));
            set_errno(saved);
            r
        }
    }
}

// ---------------------------------------------------------------------------------------
// directory streams
// ---------------------------------------------------------------------------------------

type OpendirFn = unsafe extern "C" fn(*const c_char) -> *mut libc::DIR;
type ReaddirFn = unsafe extern "C" fn(*mut libc::DIR) -> *mut libc::dirent64;
type ClosedirFn = unsafe extern "C" fn(*mut libc::DIR) -> c_int;

unsafe fn next_sym(name: &[u8]) -> *mut c_void {
    let p = libc::dlsym(libc::RTLD_NEXT, name.as_ptr() as *const c_char);
    if p.is_null() {
        raw_write_all(2, b"msim: dlsym(RTLD_NEXT) failed\n");
        libc::syscall(libc::SYS_exit_group, 2 as c_long);
    }
    p
}

unsafe fn real_opendir() -> OpendirFn {
    std::mem::transmute(next_sym(b"opendir\0"))
}
unsafe fn real_readdir64() -> ReaddirFn {
    std::mem::transmute(next_sym(b"readdir64\0"))
}
unsafe fn real_closedir() -> ClosedirFn {
    std::mem::transmute(next_sym(b"closedir\0"))
}

#[no_mangle]
pub unsafe extern "C" fn opendir(path: *const c_char) -> *mut libc::DIR {
    let g = match enter() {
        None => return real_opendir()(path),
        Some(g) => g,
    };
    let ctx = &mut *g.ctx;
    let p = absolutize(&cstr(path));
    let class = ctx.classify(&p);
    let call = if class == PathClass::Stub { "opendir_stub" } else { "opendir" };
    let (nth, hit) = ctx.tick(call);
    if let Some(item) = hit {
        if item.kind == "errno" {
            ctx.fire(call, nth, &item, false, &p);
            let line = format!("opendir {} -> -{} (fault)", ctx.canon(&p), errname(item.arg as c_int));
            ctx.note(line);
            set_errno(item.arg as c_int);
            return std::ptr::null_mut();
        }
    }
    let d = real_opendir()(path);
    let saved = errno();
    if !d.is_null() {
        ctx.dirs.insert(
            d as usize,
            DirBuf { entries: vec![], next: usize::MAX, class, path: p.clone(), fail_at: None },
        );
    }
    let line = format!("opendir {} -> {}", ctx.canon(&p), if d.is_null() { res_str(-1) } else { "ok".to_string() });
    ctx.note(line);
    set_errno(saved);
    d
}

fn dirent_name(e: &libc::dirent64) -> Vec<u8> {
    let mut v = vec![];
    for &c in e.d_name.iter() {
        if c == 0 {
            break;
        }
        v.push(c as u8);
    }
    v
}

#[no_mangle]
pub unsafe extern "C" fn readdir64(dirp: *mut libc::DIR) -> *mut libc::dirent64 {
    let g = match enter() {
        None => return real_readdir64()(dirp),
        Some(g) => g,
    };
    let ctx = &mut *g.ctx;
    let key = dirp as usize;
    if !ctx.dirs.contains_key(&key) {
        return real_readdir64()(dirp);
    }
    // first call: drain, sort, permute
    if ctx.dirs[&key].next == usize::MAX {
        let mut entries: Vec<libc::dirent64> = vec![];
        loop {
            set_errno(0);
            let e = real_readdir64()(dirp);
            if e.is_null() {
                break;
            }
            entries.push(*e);
        }
        entries.sort_by_key(dirent_name);
        // seeded Fisher-Yates, seed mixed with the directory's canonical path
        let cpath = ctx.canon(&ctx.dirs[&key].path);
        let mut s = ctx.readdir_seed;
        if s != 0 {
            for b in cpath.bytes() {
                s = (s ^ b as u64).wrapping_mul(0x100000001B3);
            }
            let mut next = || {
                s = s.wrapping_add(0x9E3779B97F4A7C15);
                let mut z = s;
                z = (z ^ (z >> 30)).wrapping_mul(0xBF58476D1CE4E5B9);
                z = (z ^ (z >> 27)).wrapping_mul(0x94D049BB133111EB);
                z ^ (z >> 31)
            };
            let n = entries.len();
            for i in (1..n).rev() {
                let j = (next() % (i as u64 + 1)) as usize;
                entries.swap(i, j);
            }
        }
        let call = if ctx.dirs[&key].class == PathClass::Stub { "readdir_stub" } else { "readdir" };
        let (nth, hit) = ctx.tick(call);
        let mut fail_at = None;
        if let Some(item) = hit {
            if item.kind == "errno" {
                // the stream ends early with an error after `arg mod (n+1)` entries... arg is
                // folded here so that any value is meaningful
                let at = if entries.is_empty() { 0 } else { (item.arg.unsigned_abs() as usize / 1000) % (entries.len() + 1) };
                let e = (item.arg.unsigned_abs() % 1000) as i32;
                fail_at = Some((at, e));
                let path = ctx.dirs[&key].path.clone();
                ctx.fire(call, nth, &item, false, &path);
            }
        }
        let order: Vec<String> = entries.iter().map(|e| String::from_utf8_lossy(&dirent_name(e)).into_owned()).collect();
        let line = format!("readdir {} order={:?}{}", cpath, order, if fail_at.is_some() { " (fault planned)" } else { "" });
        ctx.note(line);
        let d = ctx.dirs.get_mut(&key).unwrap();
        d.entries = entries;
        d.next = 0;
        d.fail_at = fail_at;
    }
    let d = ctx.dirs.get_mut(&key).unwrap();
    if let Some((at, e)) = d.fail_at {
        if d.next >= at {
            d.fail_at = None;
            d.next = d.entries.len();
            set_errno(e);
            return std::ptr::null_mut();
        }
    }
    if d.next >= d.entries.len() {
        set_errno(0);
        return std::ptr::null_mut();
    }
    let p = &mut d.entries[d.next] as *mut libc::dirent64;
    d.next += 1;
    p
}

#[no_mangle]
pub unsafe extern "C" fn closedir(dirp: *mut libc::DIR) -> c_int {
    match enter() {
        None => real_closedir()(dirp),
        Some(g) => {
            let ctx = &mut *g.ctx;
            ctx.dirs.remove(&(dirp as usize));
            real_closedir()(dirp)
        }
    }
}

// ---------------------------------------------------------------------------------------
// ambient values nothing in the library reads today
// ---------------------------------------------------------------------------------------

#[no_mangle]
pub unsafe extern "C" fn clock_gettime(clk: libc::clockid_t, ts: *mut libc::timespec) -> c_int {
    match enter() {
        None => libc::syscall(libc::SYS_clock_gettime, clk as c_long, ts) as c_int,
        Some(g) => {
            let ctx = &mut *g.ctx;
            ctx.clock_calls += 1;
            ctx.clock_ns += ctx.clock_step_ns;
            if !ts.is_null() {
                (*ts).tv_sec = ctx.clock_value + ctx.clock_ns / 1_000_000_000;
                (*ts).tv_nsec = ctx.clock_ns % 1_000_000_000;
            }
            ctx.note("clock_gettime".to_string());
            0
        }
    }
}

#[no_mangle]
pub unsafe extern "C" fn gettimeofday(tv: *mut libc::timeval, _tz: *mut c_void) -> c_int {
    match enter() {
        None => libc::syscall(libc::SYS_gettimeofday, tv, _tz) as c_int,
        Some(g) => {
            let ctx = &mut *g.ctx;
            ctx.clock_calls += 1;
            ctx.clock_ns += ctx.clock_step_ns;
            if !tv.is_null() {
                (*tv).tv_sec = ctx.clock_value + ctx.clock_ns / 1_000_000_000;
                (*tv).tv_usec = (ctx.clock_ns % 1_000_000_000) / 1000;
            }
            ctx.note("gettimeofday".to_string());
            0
        }
    }
}

#[no_mangle]
pub unsafe extern "C" fn time(t: *mut libc::time_t) -> libc::time_t {
    match enter() {
        None => {
            let mut ts: libc::timespec = std::mem::zeroed();
            libc::syscall(libc::SYS_clock_gettime, libc::CLOCK_REALTIME as c_long, &mut ts as *mut _);
            if !t.is_null() {
                *t = ts.tv_sec;
            }
            ts.tv_sec
        }
        Some(g) => {
            let ctx = &mut *g.ctx;
            ctx.clock_calls += 1;
            ctx.clock_ns += ctx.clock_step_ns;
            let now = ctx.clock_value + ctx.clock_ns / 1_000_000_000;
            if !t.is_null() {
                *t = now;
            }
            ctx.note("time".to_string());
            now
        }
    }
}

#[no_mangle]
pub unsafe extern "C" fn sched_getaffinity(pid: libc::pid_t, size: size_t, mask: *mut libc::cpu_set_t) -> c_int {
    match enter() {
        None => {
            let r = libc::syscall(libc::SYS_sched_getaffinity, pid as c_long, size, mask);
            if r < 0 {
                -1
            } else {
                // the raw call returns the number of bytes written: clear the rest like glibc
                let written = r as usize;
                if written < size {
                    std::ptr::write_bytes((mask as *mut u8).add(written), 0, size - written);
                }
                0
            }
        }
        Some(g) => {
            let ctx = &mut *g.ctx;
            ctx.cpu_calls += 1;
            ctx.note("sched_getaffinity".to_string());
            if ctx.cpus == 0 {
                let r = libc::syscall(libc::SYS_sched_getaffinity, pid as c_long, size, mask);
                if r < 0 {
                    return -1;
                }
                let written = r as usize;
                if written < size {
                    std::ptr::write_bytes((mask as *mut u8).add(written), 0, size - written);
                }
                return 0;
            }
            std::ptr::write_bytes(mask as *mut u8, 0, size);
            let bytes = mask as *mut u8;
            for c in 0..(ctx.cpus as usize).min(size * 8) {
                *bytes.add(c / 8) |= 1 << (c % 8);
            }
            0
        }
    }
}

#[no_mangle]
pub unsafe extern "C" fn getpid() -> libc::pid_t {
    match enter() {
        None => libc::syscall(libc::SYS_getpid) as libc::pid_t,
        Some(g) => {
            let ctx = &mut *g.ctx;
            ctx.pid_calls += 1;
            ctx.note("getpid".to_string());
            ctx.pid_value
        }
    }
}

/// `getenv`: what the code under test asks its environment is logged; with `env_fuzz` a
/// variable the process does not have may appear to be set ("1", "0", "" — decided per name
/// from the seed): nothing the library promises may depend on a variable nobody documented.
/// Variables that steer the runtime or that the simulator controls elsewhere are left alone.
#[no_mangle]
pub unsafe extern "C" fn getenv(name: *const c_char) -> *mut c_char {
    // the real lookup, without calling into libc's getenv (this symbol shadows it)
    unsafe fn lookup(name: &[u8]) -> *mut c_char {
        extern "C" {
            static environ: *const *const c_char;
        }
        let mut p = environ;
        if p.is_null() {
            return std::ptr::null_mut();
        }
        while !(*p).is_null() {
            let e = std::ffi::CStr::from_ptr(*p).to_bytes();
            if e.len() > name.len() && &e[..name.len()] == name && e[name.len()] == b'=' {
                return (*p).add(name.len() + 1) as *mut c_char;
            }
            p = p.add(1);
        }
        std::ptr::null_mut()
    }
    if name.is_null() {
        return std::ptr::null_mut();
    }
    let n = std::ffi::CStr::from_ptr(name).to_bytes();
    let real = lookup(n);
    match enter() {
        None => real,
        Some(g) => {
            let ctx = &mut *g.ctx;
            let nm = String::from_utf8_lossy(n).into_owned();
            if !ctx.env_reads.contains(&nm) {
                ctx.env_reads.push(nm.clone());
            }
            let steered = ["RUST_", "MSIM_", "LD_", "MALLOC_", "GLIBC_", "XDG_"].iter().any(|p| nm.starts_with(p)) || ["TMPDIR", "TMP", "TEMP", "HOME", "PATH", "LANG", "TZ", "USER"].contains(&nm.as_str()) || nm.starts_with("LC_");
            if !real.is_null() || ctx.env_fuzz == 0 || steered {
                ctx.note(format!("getenv {nm} -> {}", if real.is_null() { "unset" } else { "set" }));
                return real;
            }
            let mut h = ctx.env_fuzz ^ 0xcbf29ce484222325;
            for b in n {
                h = (h ^ *b as u64).wrapping_mul(0x100000001b3);
            }
            let v: &'static [u8] = match (h >> 20) % 8 {
                0 | 1 => b"1\0",
                2 => b"0\0",
                3 => b"\0",
                _ => {
                    ctx.note(format!("getenv {nm} -> unset"));
                    return std::ptr::null_mut();
                }
            };
            ctx.note(format!("getenv {nm} -> appears as {:?}", String::from_utf8_lossy(&v[..v.len() - 1])));
            v.as_ptr() as *mut c_char
        }
    }
}

#[no_mangle]
pub unsafe extern "C" fn getcwd(buf: *mut c_char, size: size_t) -> *mut c_char {
    let count = match enter() {
        None => false,
        Some(g) => {
            let ctx = &mut *g.ctx;
            ctx.cwd_calls += 1;
            ctx.note("getcwd".to_string());
            true
        }
    };
    let _ = count;
    if buf.is_null() {
        // glibc extension: allocate
        let cap = if size == 0 { 4096 } else { size };
        let b = libc::malloc(cap) as *mut c_char;
        if b.is_null() {
            return b;
        }
        let r = libc::syscall(libc::SYS_getcwd, b, cap);
        if r <= 0 {
            libc::free(b as *mut c_void);
            return std::ptr::null_mut();
        }
        return b;
    }
    let r = libc::syscall(libc::SYS_getcwd, buf, size);
    if r <= 0 {
        std::ptr::null_mut()
    } else {
        buf
    }
}

/// Run `f` with the context suspended (used by the executor for its own bookkeeping).
pub fn suspended<T>(f: impl FnOnce() -> T) -> T {
    let p = set_current(std::ptr::null_mut());
    let r = f();
    set_current(p);
    r
}
