//! Repository samples, a light outline scanner for Mamba text, renaming and composition.

use crate::scen::{Program, SrcFile};
use crate::util::Rng;
use std::collections::{BTreeMap, BTreeSet};
use std::path::{Path, PathBuf};

pub fn repo_dir() -> String {
    std::env::var("MSIM_REPO").unwrap_or_else(|_| "/repo".to_string())
}

#[derive(Clone, Debug)]
pub struct Sample {
    pub label: String,
    pub text: String,
    pub valid_dir: bool,
}

fn walk(dir: &Path, out: &mut Vec<PathBuf>) {
    let mut entries: Vec<PathBuf> = match std::fs::read_dir(dir) {
        Ok(rd) => rd.filter_map(|e| e.ok().map(|e| e.path())).collect(),
        Err(_) => return,
    };
    entries.sort();
    for p in entries {
        if p.is_dir() {
            walk(&p, out);
        } else if p.extension().map(|e| e == "mamba").unwrap_or(false) {
            out.push(p);
        }
    }
}

/// Every `.mamba` file under tests/resource of the working tree, in sorted order.
pub fn load_samples() -> Vec<Sample> {
    let base = PathBuf::from(repo_dir()).join("tests").join("resource");
    let mut files = vec![];
    walk(&base, &mut files);
    let mut out = vec![];
    for f in files {
        if let Ok(text) = std::fs::read_to_string(&f) {
            let rel = f.strip_prefix(&base).unwrap_or(&f).to_string_lossy().into_owned();
            let valid_dir = rel.starts_with("valid");
            out.push(Sample { label: rel, text, valid_dir });
        }
    }
    out
}

pub fn is_ident_start(c: char) -> bool {
    c.is_ascii_alphabetic() || c == '_'
}
pub fn is_ident_char(c: char) -> bool {
    c.is_ascii_alphanumeric() || c == '_'
}

fn ident_at(s: &str) -> Option<&str> {
    let mut end = 0;
    for (i, c) in s.char_indices() {
        if (i == 0 && is_ident_start(c)) || (i > 0 && is_ident_char(c)) {
            end = i + c.len_utf8();
        } else {
            break;
        }
    }
    if end == 0 {
        None
    } else {
        Some(&s[..end])
    }
}

#[derive(Clone, Debug, Default)]
pub struct ClassOutline {
    pub name: String,
    pub parents: Vec<String>,
    /// member names with the line index (within the class body) at which they are defined,
    /// and whether the member is a method (has a parameter list)
    pub members: Vec<(String, bool)>,
    /// names of `def` arguments in the class header (`class C(def a: Int, b: Str)`)
    pub header_fields: Vec<String>,
    pub has_header_args: bool,
}

#[derive(Clone, Debug, Default)]
pub struct Outline {
    /// names defined at top level with their kind: class | type | def
    pub top: Vec<(String, String)>,
    pub classes: Vec<ClassOutline>,
}

/// Split the part of a class header after the closing of the argument list into parent names.
fn parse_parents(rest: &str) -> Vec<String> {
    // rest looks like ": P1(args), P2[G], P3" possibly followed by nothing
    let rest = rest.trim_start();
    let rest = match rest.strip_prefix(':') {
        Some(r) => r,
        None => return vec![],
    };
    let mut parents = vec![];
    let mut depth = 0i32;
    let mut cur = String::new();
    let mut in_str = false;
    for c in rest.chars() {
        if in_str {
            if c == '"' {
                in_str = false;
            }
            continue;
        }
        match c {
            '"' => in_str = true,
            '(' | '[' | '{' => depth += 1,
            ')' | ']' | '}' => depth -= 1,
            ',' if depth == 0 => {
                parents.push(cur.clone());
                cur.clear();
            }
            _ if depth == 0 => cur.push(c),
            _ => {}
        }
    }
    if !cur.trim().is_empty() {
        parents.push(cur);
    }
    parents
        .iter()
        .filter_map(|p| ident_at(p.trim()).map(|s| s.to_string()))
        .collect()
}

fn def_name(after_def: &str) -> Vec<(String, bool)> {
    // after_def: text after "def "
    let mut s = after_def.trim_start();
    loop {
        let mut stripped = false;
        for kw in ["fin ", "pure ", "mut "] {
            if let Some(r) = s.strip_prefix(kw) {
                s = r.trim_start();
                stripped = true;
            }
        }
        if !stripped {
            break;
        }
    }
    if let Some(r) = s.strip_prefix('(') {
        // tuple definition
        let inner = r.split(')').next().unwrap_or("");
        return inner
            .split(',')
            .filter_map(|p| {
                let p = p.trim().trim_start_matches("fin ").trim_start_matches("mut ").trim();
                ident_at(p).map(|s| (s.to_string(), false))
            })
            .collect();
    }
    match ident_at(s) {
        Some(n) => {
            let rest = &s[n.len()..];
            let is_method = rest.trim_start().starts_with('(');
            vec![(n.to_string(), is_method)]
        }
        None => vec![],
    }
}

pub fn outline(text: &str) -> Outline {
    let mut o = Outline::default();
    let mut cur: Option<ClassOutline> = None;
    for raw in text.lines() {
        let line = raw.trim_end();
        if line.trim().is_empty() || line.trim_start().starts_with('#') {
            continue;
        }
        let indent = line.len() - line.trim_start().len();
        if indent == 0 {
            if let Some(c) = cur.take() {
                o.classes.push(c);
            }
            for kw in ["class ", "type "] {
                if let Some(rest) = line.strip_prefix(kw) {
                    if let Some(n) = ident_at(rest.trim_start()) {
                        o.top.push((n.to_string(), kw.trim().to_string()));
                        let mut c = ClassOutline { name: n.to_string(), ..Default::default() };
                        // skip generics and header arguments
                        let after = &rest.trim_start()[n.len()..];
                        let mut depth = 0i32;
                        let mut idx = 0;
                        let mut header = String::new();
                        for (i, ch) in after.char_indices() {
                            match ch {
                                '(' | '[' => {
                                    depth += 1;
                                    if ch == '(' {
                                        c.has_header_args = true;
                                    }
                                }
                                ')' | ']' => depth -= 1,
                                _ => {}
                            }
                            if depth > 0 {
                                header.push(ch);
                            }
                            if depth == 0 && (ch == ':' || ch.is_whitespace() && after[i..].trim_start().starts_with(':')) {
                                idx = i;
                                break;
                            }
                            idx = i + ch.len_utf8();
                        }
                        for part in header.split(',') {
                            let part = part.trim().trim_start_matches('(');
                            if let Some(r) = part.trim().strip_prefix("def ") {
                                for (n, _) in def_name(r) {
                                    c.header_fields.push(n);
                                }
                            }
                        }
                        c.parents = parse_parents(&after[idx.min(after.len())..]);
                        cur = Some(c);
                    }
                }
            }
            if let Some(rest) = line.strip_prefix("def ") {
                for (n, _) in def_name(rest) {
                    o.top.push((n, "def".to_string()));
                }
            }
        } else if let Some(c) = cur.as_mut() {
            if indent <= 4 {
                if let Some(rest) = line.trim_start().strip_prefix("def ") {
                    for (n, m) in def_name(rest) {
                        c.members.push((n, m));
                    }
                }
            }
        }
    }
    if let Some(c) = cur.take() {
        o.classes.push(c);
    }
    o
}

/// Whole-word identifier renaming.
pub fn rename_idents(text: &str, map: &BTreeMap<String, String>) -> String {
    let mut out = String::with_capacity(text.len() + 64);
    let chars: Vec<char> = text.chars().collect();
    let mut i = 0;
    while i < chars.len() {
        let c = chars[i];
        if is_ident_start(c) && (i == 0 || !is_ident_char(chars[i - 1])) {
            let mut j = i;
            while j < chars.len() && is_ident_char(chars[j]) {
                j += 1;
            }
            let word: String = chars[i..j].iter().collect();
            match map.get(&word) {
                Some(r) => out.push_str(r),
                None => out.push_str(&word),
            }
            i = j;
        } else {
            out.push(c);
            i += 1;
        }
    }
    out
}

/// Names of the classes the stub files define (built-in names a user definition may collide with).
pub fn builtin_names() -> BTreeSet<String> {
    let mut s = BTreeSet::new();
    let base = PathBuf::from(repo_dir()).join("src/check/resource");
    for sub in ["primitive", "std"] {
        if let Ok(rd) = std::fs::read_dir(base.join(sub)) {
            for e in rd.flatten() {
                if let Ok(t) = std::fs::read_to_string(e.path()) {
                    for line in t.lines() {
                        for kw in ["class ", "def "] {
                            if let Some(r) = line.strip_prefix(kw) {
                                if let Some(n) = ident_at(r) {
                                    s.insert(n.to_string());
                                }
                            }
                        }
                    }
                }
            }
        }
    }
    // names the checker maps onto the stub classes
    for n in ["Int", "Str", "Bool", "Float", "Complex", "List", "Set", "Dict", "Tuple", "Range", "Slice", "Any", "None", "Exception", "Callable", "Union", "Optional"] {
        s.insert(n.to_string());
    }
    s
}

/// Syntactic feature tags of a program (all files together), computed from the text so that
/// the fence around open findings does not depend on what a generator intended.
pub fn features_of(files: &[SrcFile], builtins: &BTreeSet<String>) -> Vec<String> {
    let mut feats = BTreeSet::new();
    let mut seen: BTreeMap<String, usize> = BTreeMap::new();
    let mut classes: Vec<ClassOutline> = vec![];
    for f in files {
        let o = outline(&f.text);
        for (n, _) in &o.top {
            *seen.entry(n.clone()).or_insert(0) += 1;
            if builtins.contains(n) {
                feats.insert("duplicate_top_level_name".to_string());
            }
        }
        classes.extend(o.classes);
    }
    if seen.values().any(|&c| c > 1) {
        feats.insert("duplicate_top_level_name".to_string());
    }
    // F12: a value whose written type is a union used as an element of a collection literal
    {
        let mut union_vars: BTreeSet<String> = BTreeSet::new();
        for f in files {
            let chars: Vec<char> = f.text.chars().collect();
            for i in 0..chars.len() {
                if chars[i] == ':' {
                    let mut j = i + 1;
                    while j < chars.len() && chars[j] == ' ' {
                        j += 1;
                    }
                    if j < chars.len() && chars[j] == '{' {
                        // the identifier before the colon
                        let mut k = i;
                        while k > 0 && is_ident_char(chars[k - 1]) {
                            k -= 1;
                        }
                        if k < i {
                            union_vars.insert(chars[k..i].iter().collect());
                        }
                    }
                }
            }
        }
        if !union_vars.is_empty() {
            for f in files {
                for line in f.text.lines() {
                    let start = line.find(":=").map(|p| p + 2).or_else(|| line.find("=>").map(|p| p + 2)).unwrap_or(0);
                    let rest: Vec<char> = line[start..].chars().collect();
                    let mut depth = 0;
                    let mut i = 0;
                    while i < rest.len() {
                        match rest[i] {
                            '[' | '{' => depth += 1,
                            ']' | '}' => depth -= 1,
                            c if is_ident_start(c) && (i == 0 || !is_ident_char(rest[i - 1])) => {
                                let mut j = i;
                                while j < rest.len() && is_ident_char(rest[j]) {
                                    j += 1;
                                }
                                let w: String = rest[i..j].iter().collect();
                                if depth > 0 && union_vars.contains(&w) {
                                    feats.insert("union_typed_value_in_collection_literal".to_string());
                                }
                                i = j;
                                continue;
                            }
                            _ => {}
                        }
                        i += 1;
                    }
                }
            }
        }
    }
    // F8/F9: a function whose written return type is a union (`) -> {A, B}`)
    for f in files {
        for line in f.text.lines() {
            if let Some(i) = line.find("->") {
                let before = line[..i].trim_end();
                let after = line[i + 2..].trim_start();
                if before.ends_with(')') && after.starts_with('{') && line.trim_start().starts_with("def ") {
                    feats.insert("written_union_return_type".to_string());
                }
            }
        }
    }
    let by_name: BTreeMap<String, &ClassOutline> = classes.iter().map(|c| (c.name.clone(), c)).collect();
    // F10: a written union two members of which are related by inheritance ({Int, Float},
    // {Parent, Child}, also as element types)
    {
        fn ancestors(name: &str, by: &BTreeMap<String, &ClassOutline>, depth: usize, out: &mut BTreeSet<String>) {
            if depth > 8 {
                return;
            }
            match name {
                "Int" => {
                    out.insert("Float".into());
                    out.insert("Complex".into());
                }
                "Float" => {
                    out.insert("Complex".into());
                }
                _ => {}
            }
            if let Some(c) = by.get(name) {
                for p in &c.parents {
                    if out.insert(p.clone()) {
                        ancestors(p, by, depth + 1, out);
                    }
                }
            }
        }
        for f in files {
            let chars: Vec<char> = f.text.chars().collect();
            let mut i = 0;
            while i < chars.len() {
                if chars[i] == '{' {
                    // a type position: preceded (ignoring blanks) by ':' or '->' or ',' / '[' inside a type
                    let mut j = i;
                    while j > 0 && chars[j - 1] == ' ' {
                        j -= 1;
                    }
                    let prev = if j > 0 { chars[j - 1] } else { ' ' };
                    let type_pos = prev == ':' || (prev == '>' && j > 1 && chars[j - 2] == '-') || prev == '[';
                    // find the matching brace
                    let mut depth = 0;
                    let mut k = i;
                    while k < chars.len() {
                        if chars[k] == '{' {
                            depth += 1;
                        } else if chars[k] == '}' {
                            depth -= 1;
                            if depth == 0 {
                                break;
                            }
                        } else if chars[k] == '\n' {
                            break;
                        }
                        k += 1;
                    }
                    if type_pos && k < chars.len() && chars[k] == '}' {
                        let inner: String = chars[i + 1..k].iter().collect();
                        // members split at top-level commas; every identifier inside a member
                        // counts (List[Int] vs List[Float] are related through their elements)
                        let mut members: Vec<Vec<String>> = vec![];
                        let mut depth2 = 0;
                        let mut cur = String::new();
                        for ch in inner.chars() {
                            match ch {
                                '[' | '(' | '{' => {
                                    depth2 += 1;
                                    cur.push(' ');
                                }
                                ']' | ')' | '}' => {
                                    depth2 -= 1;
                                    cur.push(' ');
                                }
                                ',' if depth2 == 0 => {
                                    members.push(idents_of(&cur));
                                    cur.clear();
                                }
                                _ => cur.push(ch),
                            }
                        }
                        members.push(idents_of(&cur));
                        for (i, a) in members.iter().enumerate() {
                            for (j, b) in members.iter().enumerate() {
                                if i == j {
                                    continue;
                                }
                                for x in a {
                                    let mut anc = BTreeSet::new();
                                    ancestors(x, &by_name, 0, &mut anc);
                                    if b.iter().any(|y| y != x && anc.contains(y)) {
                                        feats.insert("union_of_related_types".to_string());
                                    }
                                }
                            }
                        }
                    }
                }
                i += 1;
            }
        }
    }
    // all member names reachable from a class (own + ancestors), cycle-safe
    fn members_of(name: &str, by: &BTreeMap<String, &ClassOutline>, depth: usize, out: &mut BTreeSet<String>) {
        if depth > 8 {
            return;
        }
        if let Some(c) = by.get(name) {
            for (m, _) in &c.members {
                out.insert(m.clone());
            }
            for h in &c.header_fields {
                out.insert(h.clone());
            }
            for p in &c.parents {
                members_of(p, by, depth + 1, out);
            }
        }
    }
    for c in &classes {
        // F16: two members of one class with the same name (method "overloads")
        {
            let mut seen_m = BTreeSet::new();
            for (m, _) in &c.members {
                if !seen_m.insert(m.clone()) {
                    feats.insert("duplicate_member_name".to_string());
                }
            }
        }
        // F2: a method defined before a later field in one class body
        let mut seen_method = false;
        for (_, is_method) in &c.members {
            if *is_method {
                seen_method = true;
            } else if seen_method {
                feats.insert("class_method_before_fields".to_string());
            }
        }
        // F3: two parents that share a member name
        if c.parents.len() >= 2 {
            let sets: Vec<BTreeSet<String>> = c
                .parents
                .iter()
                .map(|p| {
                    let mut s = BTreeSet::new();
                    members_of(p, &by_name, 0, &mut s);
                    s
                })
                .collect();
            'outer: for i in 0..sets.len() {
                for j in i + 1..sets.len() {
                    if sets[i].intersection(&sets[j]).next().is_some() {
                        feats.insert("multi_parent_member_clash".to_string());
                        break 'outer;
                    }
                }
            }
            // a parent the outline cannot see into (built-in or undefined) may clash too
            if c.parents.iter().filter(|p| !by_name.contains_key(*p)).count() >= 1 && c.parents.len() >= 2 {
                feats.insert("multi_parent_opaque".to_string());
            }
        }
    }
    feats.into_iter().collect()
}

fn idents_of(s: &str) -> Vec<String> {
    let mut out = vec![];
    let chars: Vec<char> = s.chars().collect();
    let mut i = 0;
    while i < chars.len() {
        if is_ident_start(chars[i]) && (i == 0 || !is_ident_char(chars[i - 1])) {
            let mut j = i;
            while j < chars.len() && is_ident_char(chars[j]) {
                j += 1;
            }
            out.push(chars[i..j].iter().collect());
            i = j;
        } else {
            i += 1;
        }
    }
    out
}

pub fn single_program(s: &Sample, annotate: bool) -> Program {
    Program {
        files: vec![SrcFile { path: "a.mamba".into(), text: s.text.clone() }],
        annotate,
        features: vec![],
        label: s.label.clone(),
        path_mode: String::new(),
    }
}

/// Compose 2–5 samples (by index) into one program.  Top-level names are suffixed per sample
/// so that same-named definitions (finding F4) do not arise by accident.
pub fn compose(samples: &[Sample], picks: &[usize], multi_file: bool, annotate: bool, rename: bool) -> Program {
    let mut files = vec![];
    let mut concat = String::new();
    for (k, &i) in picks.iter().enumerate() {
        let s = &samples[i];
        let text = if rename {
            let o = outline(&s.text);
            let mut map = BTreeMap::new();
            for (n, _) in &o.top {
                if n != "_" && n != "self" && n != "__init__" {
                    map.insert(n.clone(), format!("{n}_s{k}"));
                }
            }
            rename_idents(&s.text, &map)
        } else {
            s.text.clone()
        };
        if multi_file {
            files.push(SrcFile { path: format!("m{k}.mamba"), text });
        } else {
            concat.push_str(text.trim_end());
            concat.push_str("\n\n");
        }
    }
    if !multi_file {
        files.push(SrcFile { path: "a.mamba".into(), text: concat });
    }
    let label = format!(
        "compose[{}]{}",
        picks.iter().map(|&i| samples[i].label.clone()).collect::<Vec<_>>().join("+"),
        if multi_file { " multi-file" } else { " concatenated" }
    );
    Program { files, annotate, features: vec![], label, path_mode: String::new() }
}

pub fn random_composition(samples: &[Sample], rng: &mut Rng, annotate: bool) -> Program {
    let valid: Vec<usize> = samples.iter().enumerate().filter(|(_, s)| s.valid_dir).map(|(i, _)| i).collect();
    let pool: Vec<usize> = if valid.len() >= 5 { valid } else { (0..samples.len()).collect() };
    let n = rng.range(2, 5) as usize;
    let mut picks = vec![];
    for _ in 0..n {
        picks.push(*rng.pick(&pool));
    }
    let multi = rng.chance(1, 2);
    compose(samples, &picks, multi, annotate, true)
}

/// A seeded small mutation of a repository sample: one or all occurrences of a primitive type
/// name replaced by another, a literal replaced, or one line duplicated/dropped.  Most mutants
/// are rejected by the checker — the verdict must be the same under every configuration.
pub fn mutate_sample(s: &Sample, rng: &mut Rng, annotate: bool) -> Program {
    let prims = ["Int", "Str", "Bool", "Float"];
    let mut text = s.text.clone();
    let kind = rng.below(6);
    match kind {
        5 => {
            // the same program written with other white space: whatever the lexer makes of it
            // (most are rejected), it must make the same of it every time — and must not
            // remember it for the next input
            let sub = rng.below(6);
            let reindent = |l: &str, unit: &str| -> String {
                let body = l.trim_start_matches(' ');
                let n = l.len() - body.len();
                format!("{}{}{}", unit.repeat(n / 4), " ".repeat(n % 4), body)
            };
            text = match sub {
                0 => text.lines().map(|l| reindent(l, "  ")).collect::<Vec<_>>().join("\n") + "\n",
                1 => text.lines().map(|l| reindent(l, "        ")).collect::<Vec<_>>().join("\n") + "\n",
                2 => text.lines().map(|l| reindent(l, "\t")).collect::<Vec<_>>().join("\n") + "\n",
                3 => text.lines().collect::<Vec<_>>().join("\r\n") + "\r\n",
                4 => text.lines().map(|l| format!("{l}  ")).collect::<Vec<_>>().join("\n") + "\n",
                _ => format!("\n\n{}", text.trim_end_matches('\n')),
            };
        }
        0 | 1 => {
            let from = *rng.pick(&prims);
            let mut to = *rng.pick(&prims);
            if to == from {
                to = if from == "Int" { "Str" } else { "Int" };
            }
            // positions of whole-word occurrences
            let mut pos = vec![];
            let b = text.as_bytes();
            let mut i = 0;
            while let Some(j) = text[i..].find(from) {
                let st = i + j;
                let en = st + from.len();
                let before_ok = st == 0 || !is_ident_char(b[st - 1] as char);
                let after_ok = en >= b.len() || !is_ident_char(b[en] as char);
                if before_ok && after_ok {
                    pos.push(st);
                }
                i = en;
            }
            if !pos.is_empty() {
                if kind == 0 {
                    let st = *rng.pick(&pos);
                    text.replace_range(st..st + from.len(), to);
                } else {
                    let mut map = BTreeMap::new();
                    map.insert(from.to_string(), to.to_string());
                    text = rename_idents(&text, &map);
                }
            }
        }
        2 => {
            // make one written type a union with another primitive
            let from = *rng.pick(&prims);
            let other = *rng.pick(&prims);
            if other != from {
                if let Some(st) = text.find(&format!(": {from}")) {
                    text.replace_range(st..st + 2 + from.len(), &format!(": {{{from}, {other}}}"));
                }
            }
        }
        3 => {
            let lines: Vec<&str> = text.lines().collect();
            if lines.len() > 1 {
                let k = rng.below(lines.len() as u64) as usize;
                let mut out: Vec<String> = lines.iter().map(|l| l.to_string()).collect();
                out.insert(k, lines[k].to_string());
                text = out.join("\n") + "\n";
            }
        }
        _ => {
            let lines: Vec<&str> = text.lines().collect();
            if lines.len() > 2 {
                let k = rng.below(lines.len() as u64) as usize;
                let out: Vec<String> = lines.iter().enumerate().filter(|(i, _)| *i != k).map(|(_, l)| l.to_string()).collect();
                text = out.join("\n") + "\n";
            }
        }
    }
    Program { files: vec![SrcFile { path: "a.mamba".into(), text }], annotate, features: vec![], label: format!("mutant[{}] of {}", kind, s.label), path_mode: String::new() }
}
