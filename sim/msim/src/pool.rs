//! Driver-side plumbing: run executors as child processes, in parallel, with results
//! collected by scenario index so that nothing observable depends on which worker ran what.

use std::collections::BTreeMap;
use std::io::Write;
use std::os::unix::process::{CommandExt, ExitStatusExt};
use std::process::{Command, Stdio};
use std::sync::atomic::{AtomicUsize, Ordering};

pub struct ExecOut {
    pub code: Option<i32>,
    pub signal: Option<i32>,
    pub stdout: String,
    pub stderr: String,
}

pub fn exe() -> std::path::PathBuf {
    std::env::current_exe().expect("current_exe")
}

/// Run `msim <cmd> -` with `input` on stdin in a fresh process with exactly `env` as its
/// environment and `cwd` as working directory.  CPU time and address space are capped so a
/// runaway job cannot stall the batch.
fn configure(cmd: &str, env: &BTreeMap<String, String>, cwd: &str, extra_env: &[(&str, &str)]) -> Command {
    let mut c = Command::new(exe());
    c.arg(cmd).arg("-");
    c.env_clear();
    for (k, v) in env {
        c.env(k, v);
    }
    for (k, v) in extra_env {
        c.env(k, v);
    }
    if let Ok(v) = std::env::var("MSIM_STUB_DIR") {
        c.env("MSIM_STUB_DIR", v);
    }
    if std::env::var("MSIM_DEBUG_BLOCK").is_ok() {
        c.env("MSIM_DEBUG_BLOCK", "1");
    }
    c.current_dir(if cwd.is_empty() { "/" } else { cwd });
    c.stdin(Stdio::piped()).stdout(Stdio::piped()).stderr(Stdio::piped());
    unsafe {
        c.pre_exec(|| {
            let cpu = libc::rlimit { rlim_cur: 600, rlim_max: 600 };
            libc::setrlimit(libc::RLIMIT_CPU, &cpu);
            let mem = libc::rlimit { rlim_cur: 6 << 30, rlim_max: 6 << 30 };
            libc::setrlimit(libc::RLIMIT_AS, &mem);
            let core = libc::rlimit { rlim_cur: 0, rlim_max: 0 };
            libc::setrlimit(libc::RLIMIT_CORE, &core);
            // same address-space layout in every executor: a replay must not depend on ASLR
            libc::personality(libc::ADDR_NO_RANDOMIZE as libc::c_ulong);
            Ok(())
        });
    }
    c
}

pub fn run_exec(cmd: &str, input: &str, env: &BTreeMap<String, String>, cwd: &str, extra_env: &[(&str, &str)]) -> ExecOut {
    let mut c = configure(cmd, env, cwd, extra_env);
    let debug_block = std::env::var("MSIM_DEBUG_BLOCK").is_ok();
    let mut child = match c.spawn() {
        Ok(c) => c,
        Err(e) => {
            return ExecOut { code: Some(126), signal: None, stdout: String::new(), stderr: format!("spawn failed: {e}") };
        }
    };
    {
        let mut stdin = child.stdin.take().unwrap();
        let data = input.as_bytes().to_vec();
        // the child reads all of stdin before it starts working, and writes nothing before,
        // so a plain write cannot deadlock
        let _ = stdin.write_all(&data);
    }
    // wall-clock limit: a hang (deadlock of the code under test, endless sleep) must not stall
    // the batch; CPU time is capped separately by RLIMIT_CPU
    let pid = child.id() as libc::pid_t;
    let (tx, rx) = std::sync::mpsc::channel();
    let waiter = std::thread::spawn(move || {
        let _ = tx.send(child.wait_with_output());
    });
    let limit = std::time::Duration::from_secs(std::env::var("MSIM_EXEC_WALL_S").ok().and_then(|v| v.parse().ok()).unwrap_or(900));
    let out = match rx.recv_timeout(limit) {
        Ok(o) => o.expect("wait"),
        Err(_) => {
            unsafe { libc::kill(pid, libc::SIGKILL) };
            let o = rx.recv().expect("waiter").expect("wait");
            let _ = waiter.join();
            return ExecOut { code: None, signal: Some(libc::SIGALRM), stdout: String::from_utf8_lossy(&o.stdout).into_owned(), stderr: "wall-clock limit exceeded (hang)".into() };
        }
    };
    let _ = waiter.join();
    if debug_block {
        for l in String::from_utf8_lossy(&out.stderr).lines().filter(|l| l.contains("BLOCKED")) {
            eprintln!("{l}");
        }
    }
    ExecOut {
        code: out.status.code(),
        signal: out.status.signal(),
        stdout: String::from_utf8_lossy(&out.stdout).into_owned(),
        stderr: String::from_utf8_lossy(&out.stderr).into_owned(),
    }
}

/// Map `f` over `items` on `workers` threads; results are in item order.
pub fn par_map<I: Sync, O: Send>(items: &[I], workers: usize, f: impl Fn(usize, &I) -> O + Sync) -> Vec<O> {
    let next = AtomicUsize::new(0);
    let n = items.len();
    let mut slots: Vec<Option<O>> = (0..n).map(|_| None).collect();
    let slots_ptr = SlotPtr(slots.as_mut_ptr());
    std::thread::scope(|s| {
        for _ in 0..workers.max(1).min(n.max(1)) {
            let next = &next;
            let f = &f;
            let sp = &slots_ptr;
            s.spawn(move || loop {
                let i = next.fetch_add(1, Ordering::SeqCst);
                if i >= n {
                    break;
                }
                let o = f(i, &items[i]);
                // each index is written by exactly one worker
                unsafe { *sp.0.add(i) = Some(o) };
            });
        }
    });
    slots.into_iter().map(|o| o.expect("slot filled")).collect()
}

struct SlotPtr<O>(*mut Option<O>);
unsafe impl<O: Send> Sync for SlotPtr<O> {}
unsafe impl<O: Send> Send for SlotPtr<O> {}

pub fn workers() -> usize {
    std::env::var("VERIF_WORKERS").ok().and_then(|v| v.parse().ok()).unwrap_or(16)
}

/// Per-run scratch directory (tmpfs when available), removed by the caller.
pub fn scratch_base(tag: &str) -> String {
    let base = if std::path::Path::new("/dev/shm").is_dir() { "/dev/shm".to_string() } else { std::env::temp_dir().to_string_lossy().into_owned() };
    let pid = unsafe { libc::syscall(libc::SYS_getpid) };
    // scratch directories of drivers that were killed: remove (the pid in the name is dead)
    if let Ok(rd) = std::fs::read_dir(&base) {
        for e in rd.flatten() {
            let name = e.file_name().to_string_lossy().into_owned();
            if let Some(rest) = name.strip_prefix("msim-") {
                if let Some(p) = rest.rsplit('-').next().and_then(|x| x.parse::<i32>().ok()) {
                    let alive = unsafe { libc::kill(p, 0) } == 0 || std::io::Error::last_os_error().raw_os_error() == Some(libc::EPERM);
                    if !alive {
                        let _ = std::fs::remove_dir_all(e.path());
                    }
                }
            }
        }
    }
    let p = format!("{base}/msim-{tag}-{pid}");
    let _ = std::fs::remove_dir_all(&p);
    std::fs::create_dir_all(&p).expect("scratch dir");
    p
}

/// A long-lived executor: one request line in, one reply line out, until it is closed or dies.
/// Used for histories whose steps all run in ONE process of the code under test.
pub struct Session {
    child: std::process::Child,
    stdin: Option<std::process::ChildStdin>,
    rx: std::sync::mpsc::Receiver<String>,
    reader: Option<std::thread::JoinHandle<()>>,
}

impl Session {
    pub fn spawn(cmd: &str, env: &BTreeMap<String, String>, cwd: &str) -> Option<Session> {
        let mut c = configure(cmd, env, cwd, &[]);
        c.stderr(Stdio::null());
        let mut child = c.spawn().ok()?;
        let stdin = child.stdin.take();
        let stdout = child.stdout.take()?;
        let (tx, rx) = std::sync::mpsc::channel();
        let reader = std::thread::spawn(move || {
            use std::io::BufRead;
            for line in std::io::BufReader::new(stdout).lines() {
                match line {
                    Ok(l) => {
                        if tx.send(l).is_err() {
                            break;
                        }
                    }
                    Err(_) => break,
                }
            }
        });
        Some(Session { child, stdin, rx, reader: Some(reader) })
    }

    /// One request; `None` when the executor died or did not answer in time (it is killed then).
    pub fn request(&mut self, line: &str) -> Option<String> {
        let ok = match self.stdin.as_mut() {
            Some(si) => si.write_all(line.as_bytes()).and_then(|_| si.write_all(b"\n")).and_then(|_| si.flush()).is_ok(),
            None => false,
        };
        if !ok {
            return None;
        }
        let limit = std::time::Duration::from_secs(std::env::var("MSIM_EXEC_WALL_S").ok().and_then(|v| v.parse().ok()).unwrap_or(900));
        match self.rx.recv_timeout(limit) {
            Ok(l) => Some(l),
            Err(_) => {
                let _ = self.child.kill();
                None
            }
        }
    }

    /// Close the executor and return how it ended.
    pub fn close(mut self) -> (Option<i32>, Option<i32>) {
        drop(self.stdin.take());
        let st = self.child.wait().ok();
        if let Some(r) = self.reader.take() {
            let _ = r.join();
        }
        (st.and_then(|s| s.code()), st.and_then(|s| s.signal()))
    }
}
