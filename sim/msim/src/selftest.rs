//! Proving the simulator before believing it: every scenario executed twice, in different
//! child processes, at different worker counts, from different scratch roots; all recorded
//! digests must be identical.

use crate::c12;
use crate::c13::{self, Stats};
use crate::c13run::{gen_and_run, GenCfg};
use crate::corpus;
use crate::findings;
use crate::gen;
use crate::pool::{par_map, scratch_base};
use crate::scen::*;
use crate::util::Rng;
use std::collections::BTreeSet;

fn job_sig(r: &JobsResult) -> String {
    let mut s = format!("il={} sw={};", r.interleaving_digest, r.switches);
    for j in &r.jobs {
        s.push_str(&format!(
            "[{} {} {} {} {} {} {} {} {:?}]",
            j.round,
            j.thread,
            j.program,
            j.verdict,
            crate::util::digest_strs(&j.outputs),
            j.canary,
            j.log_digest,
            j.calls,
            j.fired.iter().map(|f| (f.seq, f.call.clone(), f.nth)).collect::<Vec<_>>()
        ));
    }
    s
}

fn stats_sig(s: &Stats) -> String {
    format!("{} {} {} {} {:?} {:?} {:?}", s.steps, s.steps_ok, s.steps_err, s.steps_crash, s.faults_fired, s.perturbations_fired, s.trace_tree_pairs)
}

pub fn determinism(seed: u64, verif_dir: &str) -> i32 {
    let n12: usize = std::env::var("VERIF_ST_C12").ok().and_then(|v| v.parse().ok()).unwrap_or(1500);
    let n13: usize = std::env::var("VERIF_ST_C13").ok().and_then(|v| v.parse().ok()).unwrap_or(500);
    let entries = findings::load(verif_dir);
    let mut fenced = findings::fenced(&entries, "C12");
    fenced.extend(findings::fenced(&entries, "C13"));
    // ---- C12 scenarios
    let samples = corpus::load_samples();
    let mut rng = Rng::new(seed);
    let mut programs = vec![];
    for s in samples.iter().step_by(3) {
        programs.push(corpus::single_program(s, true));
    }
    let mut grng = rng.fork(2);
    for i in 0..150 {
        programs.push(Program { files: gen::generate(&mut grng, &fenced), annotate: i % 2 == 0, features: vec![], label: format!("g{i}"), path_mode: String::new() });
    }
    let configs = vec![12usize; programs.len()];
    let mut scenarios = c12::build_scenarios(seed, &programs, &configs, &mut rng.fork(3), &fenced);
    scenarios.truncate(n12);
    let a = par_map(&scenarios, 16, |_, sc| job_sig(&c12::run_scenario(sc)));
    let b = par_map(&scenarios, 5, |_, sc| job_sig(&c12::run_scenario(sc)));
    let sub: Vec<C12Scenario> = scenarios.iter().step_by(12).cloned().collect();
    let c = par_map(&sub, 1, |_, sc| job_sig(&c12::run_scenario(sc)));
    let mut bad = 0;
    for i in 0..scenarios.len() {
        if a[i] != b[i] {
            bad += 1;
            if bad <= 3 {
                println!("C12 scenario {i} diverged between two executions:\n  {}\n  {}", a[i], b[i]);
            }
        }
    }
    for (k, i) in (0..scenarios.len()).step_by(12).enumerate() {
        if a[i] != c[k] {
            bad += 1;
            if bad <= 3 {
                println!("C12 scenario {i} diverged at worker count 1");
            }
        }
    }
    let jobs: usize = scenarios.iter().map(|s| s.schedule.iter().map(|r| r.jobs.len()).sum::<usize>()).sum();
    let concurrent = scenarios.iter().filter(|s| s.schedule.iter().any(|r| r.jobs.len() > 1)).count();
    println!("selftest-determinism C12: {} scenarios ({} with concurrent rounds, {} jobs) x 2 executions (16 and 5 workers) + {} at 1 worker: {} divergences", scenarios.len(), concurrent, jobs, sub.len(), bad);

    // ---- C13 histories: generated while executed, twice, from different scratch roots
    let idx: Vec<u64> = (0..n13 as u64).map(|i| if i % 2 == 0 { i } else { 100_000 + i }).collect();
    let s1 = scratch_base("st-a");
    let s2 = scratch_base("st-b-with-a-longer-name");
    let run = |scratch: &str, w: usize| {
        par_map(&idx, w, |_, &i| {
            let cfg = GenCfg { faults: i >= 100_000, rounds_max: 3, cli_permille: if i >= 100_000 { 0 } else { 200 }, all_perms: false };
            let (sc, out) = gen_and_run(seed, i, scratch, &cfg, &fenced);
            let viol: Vec<String> = out.violations.iter().map(|v| format!("{} {} {}", v.class, v.step, v.detail)).collect();
            (serde_json::to_string(&sc).unwrap(), stats_sig(&out.stats), viol, sc)
        })
    };
    let r1 = run(&s1, 16);
    let r2 = run(&s2, 3);
    let mut bad13 = 0;
    let mut steps = 0;
    for i in 0..idx.len() {
        if r1[i].0 != r2[i].0 || r1[i].1 != r2[i].1 || r1[i].2 != r2[i].2 {
            bad13 += 1;
            if bad13 <= 3 {
                println!("C13 history {} diverged between two executions:\n  {}\n  {}", idx[i], r1[i].1, r2[i].1);
            }
        }
    }
    // and re-executing the explicit scenario gives what generation-time execution gave
    let sub13: Vec<&c13::C13Scenario> = r1.iter().step_by(4).map(|r| &r.3).collect();
    let r3 = par_map(&sub13, 16, |_, sc| {
        let out = c13::run_history(sc, &s2);
        (stats_sig(&out.stats), out.stats.steps)
    });
    for (k, i) in (0..idx.len()).step_by(4).enumerate() {
        steps += r3[k].1;
        if r3[k].0 != r1[i].1 {
            bad13 += 1;
            if bad13 <= 3 {
                println!("C13 history {}: replay of the explicit scenario differs from the generation-time execution", idx[i]);
            }
        }
    }
    let _ = std::fs::remove_dir_all(&s1);
    let _ = std::fs::remove_dir_all(&s2);
    let distinct: BTreeSet<&String> = r1.iter().map(|r| &r.1).collect();
    println!("selftest-determinism C13: {} histories x 2 executions (16 and 3 workers, two scratch roots) + {} replays of the explicit scenario ({} steps): {} divergences; {} distinct history signatures", idx.len(), sub13.len(), steps, bad13, distinct.len());
    if bad + bad13 > 0 {
        println!("HARNESS-ERROR nondeterministic simulator");
        2
    } else {
        0
    }
}

/// Reach probes: read the evidence the last runs of the checks wrote and compare with floors.
/// A probe below its floor prints `REACH-WARNING <probe>`; this never fails a check.
pub fn reach(verif_dir: &str) -> i32 {
    let warnings = std::cell::Cell::new(0);
    let probe = |name: &str, got: f64, floor: f64| {
        if got < floor {
            println!("REACH-WARNING {name}: {got} < {floor}");
            warnings.set(warnings.get() + 1);
        } else {
            println!("reach ok   {name}: {got} >= {floor}");
        }
    };
    let load = |p: &str| -> Option<serde_json::Value> { std::fs::read_to_string(format!("{verif_dir}/evidence/{p}.json")).ok().and_then(|t| serde_json::from_str(&t).ok()) };
    let num = |v: &serde_json::Value| v.as_f64().unwrap_or(0.0);
    if let Some(e) = load("C12") {
        let c = &e["coverage"];
        let thorough = e["tier"] == "thorough";
        let k = if thorough { 10.0 } else { 1.0 };
        probe("C12.distinct_hash_orders", num(&c["distinct_hash_orders"]), 1000.0 * k);
        probe("C12.jobs_with_earlier_jobs_in_process", num(&c["jobs_with_earlier_jobs_in_process"]), 2000.0 * k);
        probe("C12.jobs_in_concurrent_rounds", num(&c["jobs_in_concurrent_rounds"]), 500.0 * k);
        probe("C12.interleaving_switches", num(&c["interleaving_switches"]), 1000.0 * k);
        probe("C12.distinct_interleavings", num(&c["distinct_interleavings"]), 50.0 * k);
        probe("C12.outputs_with_rendered_union", num(&c["outputs_with_rendered_union"]), 100.0 * k);
        let frac = |s: &serde_json::Value| {
            let t = s.as_str().unwrap_or("0/1").to_string();
            let mut it = t.split('/');
            let a: f64 = it.next().and_then(|x| x.parse().ok()).unwrap_or(0.0);
            let b: f64 = it.next().and_then(|x| x.parse().ok()).unwrap_or(1.0);
            if b == 0.0 { 0.0 } else { a / b }
        };
        probe("C12.generated_accepted_share", frac(&c["generated_accepted"]), 0.4);
        probe("C12.compositions_accepted_share", frac(&c["compositions_accepted"]), 0.3);
        let pf = c["perturbations_fired"].as_object().map(|m| m.len()).unwrap_or(0) as f64;
        probe("C12.perturbation_kinds_fired", pf, 3.0);
        probe("C12.clock_calls (expected 0 today)", -num(&c["clock_calls"]), 0.0);
        probe("C12.programs_run_through_transpile_dir", num(&c["programs_run_through_transpile_dir"]), 20.0);
        probe("C12.jobs_repeating_an_earlier_job_of_their_thread", num(&c["jobs_repeating_an_earlier_job_of_their_thread"]), 100.0 * k);
        probe("C12.edited_versions_run_before_their_program_on_the_same_thread", num(&c["edited_versions_run_before_their_program_on_the_same_thread"]), 100.0 * k);
        probe("C12.scenarios_with_environment_fuzzing", num(&c["scenarios_with_environment_fuzzing"]), 50.0 * k);
        probe("C12.scheduling_points_from_log_statements", num(&c["scheduling_points_from_log_statements"]), 1000.0 * k);
    } else {
        println!("REACH-WARNING no C12 evidence");
        warnings.set(warnings.get() + 1);
    }
    if let Some(e) = load("C13") {
        let c = &e["coverage"];
        let thorough = e["tier"] == "thorough";
        let k = if thorough { 8.0 } else { 1.0 };
        probe("C13.steps.multi_file", num(&c["steps"]["multi_file"]), 500.0 * k);
        probe("C13.ok_checked_under_fired_fault", num(&c["ok_checked_under_fired_fault"]), 10.0 * k);
        probe("C13.recoveries_checked", num(&c["recoveries_checked"]), 100.0 * k);
        probe("C13.crash_between_two_file_writes", num(&c["after_failed_run"]["crash_between_two_file_writes"]), 1.0);
        probe("C13.after_failed_run.prefix_of_expected", num(&c["after_failed_run"]["prefix_of_expected"]), 5.0);
        probe("C13.overwrote_longer_file", num(&c["overwrote_longer_file"]), 10.0 * k);
        probe("C13.cli_runs", num(&c["cli_runs"]), 20.0 * k);
        probe("C13.cli_runs_with_unwritable_stderr", num(&c["cli_runs_with_unwritable_stderr"]), 5.0 * k);
        probe("C13.sessions_started", num(&c["sessions_started"]), 50.0 * k);
        probe("C13.steps_run_in_an_already_used_process", num(&c["steps_run_in_an_already_used_process"]), 200.0 * k);
        probe("C13.source_paths_materialised_as_symlinks", num(&c["source_paths_materialised_as_symlinks"]), 20.0 * k);
        probe("C13.single_faulty_by_kind.encoding", num(&c["single_faulty_by_kind"]["encoding"]), 2.0);
        probe("C13.histories_with_ok_and_err_steps", num(&c["histories_with_ok_and_err_steps"]), 30.0 * k);
        for kind in ["lexical", "syntax", "type", "crossfile_type"] {
            probe(&format!("C13.single_faulty_by_kind.{kind}"), num(&c["single_faulty_by_kind"][kind]), 3.0);
        }
        probe("C13.single_faulty_with_same_base_name_elsewhere", num(&c["single_faulty_with_same_base_name_elsewhere"]), 1.0);
        for rel in ["order", "interference", "same_texts", "visibility", "visibility_negative_control"] {
            probe(&format!("C13.relation_checks.{rel}"), num(&c["relation_checks"][rel]), 20.0);
        }
        let fired = c["faults_fired"].as_object().cloned().unwrap_or_default();
        for call in ["crash", "mkdir:errno", "open_r:errno", "open_w:errno", "opendir:errno", "read:errno", "readdir:errno", "statx:errno", "write:disk_full", "write:eintr", "write:errno", "write:short", "open_stub:errno", "read_stub:errno"] {
            let n: f64 = fired.iter().filter(|(k, _)| k.starts_with(call)).map(|(_, v)| num(v)).sum();
            probe(&format!("C13.faults_fired.{call}"), n, 1.0);
        }
        let pf = c["perturbations_fired"].as_object().map(|m| m.len()).unwrap_or(0) as f64;
        probe("C13.perturbation_kinds_fired", pf, 4.0);
    } else {
        println!("REACH-WARNING no C13 evidence");
        warnings.set(warnings.get() + 1);
    }
    println!("selftest-reach: {} warning(s)", warnings.get());
    0
}
