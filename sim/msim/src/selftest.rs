//! Proving the simulator before believing it: every scenario executed twice, in different
//! child processes, at different worker counts, from different scratch roots; all recorded
//! digests must be identical.

use crate::c12;
use crate::c13::{self, Stats};
use crate::c13run::{gen_and_run, GenCfg};
use crate::corpus;
use crate::findings;
use crate::gen;
use crate::pool::{par_map, scratch_base};
use crate::scen::*;
use crate::util::Rng;
use std::collections::BTreeSet;

fn job_sig(r: &JobsResult) -> String {
    let mut s = format!("il={} sw={};", r.interleaving_digest, r.switches);
    for j in &r.jobs {
        s.push_str(&format!(
            "[{} {} {} {} {} {} {} {} {:?}]",
            j.round,
            j.thread,
            j.program,
            j.verdict,
            crate::util::digest_strs(&j.outputs),
            j.canary,
            j.log_digest,
            j.calls,
            j.fired.iter().map(|f| (f.seq, f.call.clone(), f.nth)).collect::<Vec<_>>()
        ));
    }
    s
}

fn stats_sig(s: &Stats) -> String {
    format!("{} {} {} {} {:?} {:?} {:?}", s.steps, s.steps_ok, s.steps_err, s.steps_crash, s.faults_fired, s.perturbations_fired, s.trace_tree_pairs)
}

pub fn determinism(seed: u64, verif_dir: &str) -> i32 {
    let n12: usize = std::env::var("VERIF_ST_C12").ok().and_then(|v| v.parse().ok()).unwrap_or(1500);
    let n13: usize = std::env::var("VERIF_ST_C13").ok().and_then(|v| v.parse().ok()).unwrap_or(500);
    let entries = findings::load(verif_dir);
    let mut fenced = findings::fenced(&entries, "C12");
    fenced.extend(findings::fenced(&entries, "C13"));
    // ---- C12 scenarios
    let samples = corpus::load_samples();
    let mut rng = Rng::new(seed);
    let mut programs = vec![];
    for s in samples.iter().step_by(3) {
        programs.push(corpus::single_program(s, true));
    }
    let mut grng = rng.fork(2);
    for i in 0..150 {
        programs.push(Program { files: gen::generate(&mut grng, &fenced), annotate: i % 2 == 0, features: vec![], label: format!("g{i}") });
    }
    let configs = vec![12usize; programs.len()];
    let mut scenarios = c12::build_scenarios(seed, &programs, &configs, &mut rng.fork(3));
    scenarios.truncate(n12);
    let a = par_map(&scenarios, 16, |_, sc| job_sig(&c12::run_scenario(sc)));
    let b = par_map(&scenarios, 5, |_, sc| job_sig(&c12::run_scenario(sc)));
    let sub: Vec<C12Scenario> = scenarios.iter().step_by(12).cloned().collect();
    let c = par_map(&sub, 1, |_, sc| job_sig(&c12::run_scenario(sc)));
    let mut bad = 0;
    for i in 0..scenarios.len() {
        if a[i] != b[i] {
            bad += 1;
            if bad <= 3 {
                println!("C12 scenario {i} diverged between two executions:\n  {}\n  {}", a[i], b[i]);
            }
        }
    }
    for (k, i) in (0..scenarios.len()).step_by(12).enumerate() {
        if a[i] != c[k] {
            bad += 1;
            if bad <= 3 {
                println!("C12 scenario {i} diverged at worker count 1");
            }
        }
    }
    let jobs: usize = scenarios.iter().map(|s| s.schedule.iter().map(|r| r.jobs.len()).sum::<usize>()).sum();
    let concurrent = scenarios.iter().filter(|s| s.schedule.iter().any(|r| r.jobs.len() > 1)).count();
    println!("selftest-determinism C12: {} scenarios ({} with concurrent rounds, {} jobs) x 2 executions (16 and 5 workers) + {} at 1 worker: {} divergences", scenarios.len(), concurrent, jobs, sub.len(), bad);

    // ---- C13 histories: generated while executed, twice, from different scratch roots
    let idx: Vec<u64> = (0..n13 as u64).map(|i| if i % 2 == 0 { i } else { 100_000 + i }).collect();
    let s1 = scratch_base("st-a");
    let s2 = scratch_base("st-b-with-a-longer-name");
    let run = |scratch: &str, w: usize| {
        par_map(&idx, w, |_, &i| {
            let cfg = GenCfg { faults: i >= 100_000, rounds_max: 3, cli_permille: if i >= 100_000 { 0 } else { 200 }, all_perms: false };
            let (sc, out) = gen_and_run(seed, i, scratch, &cfg, &fenced);
            let viol: Vec<String> = out.violations.iter().map(|v| format!("{} {} {}", v.class, v.step, v.detail)).collect();
            (serde_json::to_string(&sc).unwrap(), stats_sig(&out.stats), viol, sc)
        })
    };
    let r1 = run(&s1, 16);
    let r2 = run(&s2, 3);
    let mut bad13 = 0;
    let mut steps = 0;
    for i in 0..idx.len() {
        if r1[i].0 != r2[i].0 || r1[i].1 != r2[i].1 || r1[i].2 != r2[i].2 {
            bad13 += 1;
            if bad13 <= 3 {
                println!("C13 history {} diverged between two executions:\n  {}\n  {}", idx[i], r1[i].1, r2[i].1);
            }
        }
    }
    // and re-executing the explicit scenario gives what generation-time execution gave
    let sub13: Vec<&c13::C13Scenario> = r1.iter().step_by(4).map(|r| &r.3).collect();
    let r3 = par_map(&sub13, 16, |_, sc| {
        let out = c13::run_history(sc, &s2);
        (stats_sig(&out.stats), out.stats.steps)
    });
    for (k, i) in (0..idx.len()).step_by(4).enumerate() {
        steps += r3[k].1;
        if r3[k].0 != r1[i].1 {
            bad13 += 1;
            if bad13 <= 3 {
                println!("C13 history {}: replay of the explicit scenario differs from the generation-time execution", idx[i]);
            }
        }
    }
    let _ = std::fs::remove_dir_all(&s1);
    let _ = std::fs::remove_dir_all(&s2);
    let distinct: BTreeSet<&String> = r1.iter().map(|r| &r.1).collect();
    println!("selftest-determinism C13: {} histories x 2 executions (16 and 3 workers, two scratch roots) + {} replays of the explicit scenario ({} steps): {} divergences; {} distinct history signatures", idx.len(), sub13.len(), steps, bad13, distinct.len());
    if bad + bad13 > 0 {
        println!("HARNESS-ERROR nondeterministic simulator");
        2
    } else {
        0
    }
}
