//! Seeded template generator for Mamba programs (placeholder, replaced below).
use crate::scen::SrcFile;
use crate::util::Rng;
use std::collections::BTreeSet;

pub fn generate(rng: &mut Rng, _fenced: &BTreeSet<String>) -> Vec<SrcFile> {
    let n = rng.range(1, 9);
    vec![SrcFile { path: "a.mamba".into(), text: format!("def a := {n}\n") }]
}
