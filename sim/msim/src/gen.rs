//! Seeded template generator for Mamba programs, aimed at the shapes C12's quantifier
//! names: type unions, several classes, several parents, exception hierarchies, generic
//! collections, shadowing.  Every choice comes from the scenario PRNG.
//!
//! Programs need not be accepted by the checker: a rejected program must be rejected under
//! every configuration, which is checked all the same.

use crate::scen::SrcFile;
use crate::util::Rng;
use std::collections::BTreeSet;

#[derive(Clone, Debug, PartialEq, Eq)]
pub enum Ty {
    Int,
    Str,
    Bool,
    Float,
    Class(usize),
}

#[derive(Clone, Debug)]
pub struct Method {
    pub name: String,
    pub params: Vec<(String, Ty)>,
    pub ret: Ty,
}

#[derive(Clone, Debug)]
pub struct ClassInfo {
    pub name: String,
    /// constructor arguments (header): (name, type, is_field (`def`), has default)
    pub args: Vec<(String, Ty, bool, bool)>,
    pub fields: Vec<(String, Ty)>,
    pub methods: Vec<Method>,
    pub parents: Vec<usize>,
    pub is_exception: bool,
}

#[derive(Clone, Debug)]
pub struct FunInfo {
    pub name: String,
    pub params: Vec<(String, Ty, bool)>,
    pub ret: Ty,
    pub raises: Vec<usize>,
}

pub struct Gen<'a> {
    pub rng: &'a mut Rng,
    pub classes: Vec<ClassInfo>,
    pub funs: Vec<FunInfo>,
    pub vars: Vec<(String, Ty)>,
    pub out: String,
    pub fenced: &'a BTreeSet<String>,
    counter: usize,
    /// prefix for every generated top-level and member name (keeps files of a project disjoint)
    pub prefix: String,
    /// file each class / function was generated in, the current file, and the files whose
    /// declarations the current file may use (cross-file use in generated projects)
    pub class_file: Vec<usize>,
    /// files that already define the one-letter print helper
    pub fstr_helper: BTreeSet<usize>,
    pub fun_file: Vec<usize>,
    pub cur_file: usize,
    pub visible_files: BTreeSet<usize>,
    /// classes that are interfaces (`type`): never constructed
    pub interfaces: BTreeSet<usize>,
    /// stay with the productions the checker mostly accepts (files of generated projects:
    /// C13 needs mostly valid projects)
    pub conservative: bool,
}

const WORDS: &[&str] = &["alpha", "beta", "gamma", "delta", "omega", "kappa", "sigma", "theta", "zeta", "iota"];

impl<'a> Gen<'a> {
    pub fn new(rng: &'a mut Rng, fenced: &'a BTreeSet<String>, prefix: &str) -> Gen<'a> {
        Gen {
            rng,
            classes: vec![],
            funs: vec![],
            vars: vec![],
            out: String::new(),
            fenced,
            counter: 0,
            prefix: prefix.to_string(),
            class_file: vec![],
            fstr_helper: BTreeSet::new(),
            fun_file: vec![],
            cur_file: 0,
            visible_files: BTreeSet::new(),
            interfaces: BTreeSet::new(),
            conservative: false,
        }
    }

    fn fresh(&mut self, stem: &str) -> String {
        self.counter += 1;
        format!("{}{}{}", self.prefix, stem, self.counter)
    }

    pub fn ty_name(&self, t: &Ty) -> String {
        match t {
            Ty::Int => "Int".into(),
            Ty::Str => "Str".into(),
            Ty::Bool => "Bool".into(),
            Ty::Float => "Float".into(),
            Ty::Class(i) => self.classes[*i].name.clone(),
        }
    }

    fn prim(&mut self) -> Ty {
        match self.rng.below(10) {
            0..=3 => Ty::Int,
            4..=6 => Ty::Str,
            7..=8 => Ty::Bool,
            _ => Ty::Float,
        }
    }

    fn file_visible(&self, f: usize) -> bool {
        f == self.cur_file || self.visible_files.contains(&f)
    }

    fn plain_classes(&self) -> Vec<usize> {
        (0..self.classes.len())
            .filter(|&i| !self.classes[i].is_exception && !self.interfaces.contains(&i) && self.file_visible(self.class_file.get(i).cloned().unwrap_or(self.cur_file)))
            .collect()
    }

    /// Start a new file of the same project: fresh prefix and output, no top-level variables,
    /// declarations of `visible` earlier files usable.
    pub fn begin_file(&mut self, file: usize, prefix: &str, visible: &BTreeSet<usize>) {
        while self.class_file.len() < self.classes.len() {
            self.class_file.push(self.cur_file);
        }
        while self.fun_file.len() < self.funs.len() {
            self.fun_file.push(self.cur_file);
        }
        self.cur_file = file;
        self.prefix = prefix.to_string();
        self.visible_files = visible.clone();
        self.vars.clear();
        self.out.clear();
    }

    /// classes of other (visible) files
    pub fn foreign_plain_classes(&self) -> Vec<usize> {
        (0..self.classes.len())
            .filter(|&i| !self.classes[i].is_exception && !self.interfaces.contains(&i) && self.class_file.get(i).map(|f| *f != self.cur_file && self.visible_files.contains(f)).unwrap_or(false))
            .collect()
    }

    fn any_ty(&mut self) -> Ty {
        let pc = self.plain_classes();
        if !pc.is_empty() && self.rng.chance(1, 3) {
            Ty::Class(*self.rng.pick(&pc))
        } else {
            self.prim()
        }
    }

    fn lit(&mut self, t: &Ty) -> String {
        match t {
            Ty::Int => format!("{}", self.rng.below(100)),
            Ty::Str => format!("\"{}\"", self.rng.pick(WORDS)),
            Ty::Bool => if self.rng.chance(1, 2) { "True".into() } else { "False".into() },
            Ty::Float => format!("{}.{}", self.rng.below(50), self.rng.range(1, 9)),
            Ty::Class(i) => self.ctor(*i, 0),
        }
    }

    fn ctor(&mut self, ci: usize, depth: usize) -> String {
        let args = self.classes[ci].args.clone();
        let mut parts = vec![];
        for (k, (_, t, _, has_default)) in args.iter().enumerate() {
            // trailing defaulted arguments may be left out
            if *has_default && k + 1 == args.len() && self.rng.chance(1, 2) {
                break;
            }
            parts.push(self.expr(t, depth + 1));
        }
        format!("{}({})", self.classes[ci].name, parts.join(", "))
    }

    /// all fields of a class including header `def` args and inherited ones
    fn all_fields(&self, ci: usize) -> Vec<(String, Ty)> {
        let mut v: Vec<(String, Ty)> = vec![];
        let c = &self.classes[ci];
        for (n, t, is_field, _) in &c.args {
            if *is_field {
                v.push((n.clone(), t.clone()));
            }
        }
        v.extend(c.fields.iter().cloned());
        for &p in &c.parents {
            v.extend(self.all_fields(p));
        }
        v
    }

    fn all_methods(&self, ci: usize) -> Vec<Method> {
        let c = &self.classes[ci];
        let mut v = c.methods.clone();
        for &p in &c.parents {
            v.extend(self.all_methods(p));
        }
        v
    }

    fn is_subclass(&self, ci: usize, of: usize) -> bool {
        ci == of || self.classes[ci].parents.iter().any(|&p| self.is_subclass(p, of))
    }

    pub fn expr(&mut self, t: &Ty, depth: usize) -> String {
        if depth >= 3 {
            return self.leaf(t);
        }
        let choice = self.rng.below(10);
        match choice {
            0..=2 => self.leaf(t),
            3 | 4 => match t {
                Ty::Int => {
                    let op = *self.rng.pick(&["+", "-", "*"]);
                    format!("{} {} {}", self.expr(&Ty::Int, depth + 1), op, self.expr(&Ty::Int, depth + 1))
                }
                Ty::Str => format!("{} + {}", self.expr(&Ty::Str, depth + 1), self.expr(&Ty::Str, depth + 1)),
                Ty::Bool => match self.rng.below(3) {
                    0 => format!("{} < {}", self.expr(&Ty::Int, depth + 1), self.expr(&Ty::Int, depth + 1)),
                    1 => format!("{} and {}", self.expr(&Ty::Bool, depth + 1), self.expr(&Ty::Bool, depth + 1)),
                    _ => format!("not {}", self.leaf(&Ty::Bool)),
                },
                Ty::Float => format!("{} + {}", self.expr(&Ty::Float, depth + 1), self.expr(&Ty::Float, depth + 1)),
                Ty::Class(_) => self.leaf(t),
            },
            5 => {
                // call of a non-raising function returning t
                let cands: Vec<usize> = (0..self.funs.len())
                    .filter(|&i| self.funs[i].ret == *t && self.funs[i].raises.is_empty() && self.file_visible(self.fun_file.get(i).cloned().unwrap_or(self.cur_file)))
                    .collect();
                if cands.is_empty() {
                    return self.leaf(t);
                }
                let f = self.funs[*self.rng.pick(&cands)].clone();
                let mut args = vec![];
                for (k, (_, pt, has_default)) in f.params.iter().enumerate() {
                    if *has_default && k + 1 == f.params.len() && self.rng.chance(1, 2) {
                        break;
                    }
                    args.push(self.expr(pt, depth + 1));
                }
                format!("{}({})", f.name, args.join(", "))
            }
            6 | 7 => {
                // field or method of an object variable
                let objs: Vec<(String, usize)> = self.vars.iter().filter_map(|(n, vt)| if let Ty::Class(c) = vt { Some((n.clone(), *c)) } else { None }).collect();
                if objs.is_empty() {
                    return self.leaf(t);
                }
                let (on, oc) = self.rng.pick(&objs).clone();
                let fields: Vec<(String, Ty)> = self.all_fields(oc).into_iter().filter(|(_, ft)| ft == t).collect();
                let methods: Vec<Method> = self.all_methods(oc).into_iter().filter(|m| m.ret == *t).collect();
                if !methods.is_empty() && (fields.is_empty() || self.rng.chance(1, 2)) {
                    let m = self.rng.pick(&methods).clone();
                    let args: Vec<String> = m.params.iter().map(|(_, pt)| self.expr(pt, depth + 1)).collect();
                    format!("{}.{}({})", on, m.name, args.join(", "))
                } else if !fields.is_empty() {
                    let (f, _) = self.rng.pick(&fields).clone();
                    format!("{on}.{f}")
                } else {
                    self.leaf(t)
                }
            }
            8 if depth == 0 && *t != Ty::Bool => format!("if {} then {} else {}", self.cond(), self.expr(t, 2), self.expr(t, 2)),
            8 => self.leaf(t),
            _ => format!("({})", self.expr(t, depth + 1)),
        }
    }

    /// a condition the checker can type: comparison or boolean variable/literal
    fn cond(&mut self) -> String {
        match self.rng.below(3) {
            0 => format!("{} < {}", self.leaf(&Ty::Int), self.leaf(&Ty::Int)),
            1 => format!("{} > {}", self.leaf(&Ty::Int), self.leaf(&Ty::Int)),
            _ => self.leaf(&Ty::Bool),
        }
    }

    fn leaf(&mut self, t: &Ty) -> String {
        let cands: Vec<String> = self
            .vars
            .iter()
            .filter(|(_, vt)| match (vt, t) {
                (Ty::Class(a), Ty::Class(b)) => self.is_subclass(*a, *b),
                _ => vt == t,
            })
            .map(|(n, _)| n.clone())
            .collect();
        if !cands.is_empty() && self.rng.chance(1, 2) {
            return self.rng.pick(&cands).clone();
        }
        if let Ty::Class(c) = t {
            // a subclass instance where a parent is expected
            let subs: Vec<usize> = self.plain_classes().into_iter().filter(|&s| self.is_subclass(s, *c)).collect();
            let pick = if subs.is_empty() { *c } else { *self.rng.pick(&subs) };
            return self.ctor(pick, 2);
        }
        self.lit(t)
    }

    // ------------------------------------------------------------------ declarations

    fn gen_class(&mut self) {
        let name = {
            self.counter += 1;
            format!("{}C{}", capitalise(&self.prefix), self.counter)
        };
        let mut info = ClassInfo { name: name.clone(), args: vec![], fields: vec![], methods: vec![], parents: vec![], is_exception: false };
        // header arguments
        if self.rng.chance(2, 5) {
            for k in 0..self.rng.range(1, 3) {
                let t = self.prim();
                let is_field = self.rng.chance(2, 3);
                let has_default = k > 0 && self.rng.chance(1, 3);
                let n = self.fresh("a");
                info.args.push((n, t, is_field, has_default));
            }
            // defaults only at the end
            let mut seen_default = false;
            for a in info.args.iter_mut() {
                if a.3 {
                    seen_default = true;
                } else if seen_default {
                    a.3 = true;
                }
            }
        }
        // parents
        let pc = self.plain_classes();
        let mut parent_txt = vec![];
        if !pc.is_empty() && self.rng.chance(1, 2) {
            let np = if pc.len() >= 3 && self.rng.chance(1, 6) { 3 } else if pc.len() >= 2 && self.rng.chance(2, 5) { 2 } else { 1 };
            let mut cands = pc.clone();
            self.rng.shuffle(&mut cands);
            for &p in cands.iter().take(np) {
                // mostly not two parents where one is an ancestor of the other
                if info.parents.iter().any(|&q| self.is_subclass(p, q) || self.is_subclass(q, p)) && !self.rng.chance(1, 3) {
                    continue;
                }
                let pa = self.classes[p].args.clone();
                if pa.is_empty() {
                    info.parents.push(p);
                    parent_txt.push(self.classes[p].name.clone());
                } else {
                    // parent arguments may only be string literals or identifiers
                    let mut parts = vec![];
                    let mut ok = true;
                    for (_, t, _, _) in pa.iter() {
                        if let Some((n, _, _, _)) = info.args.iter().find(|(_, at, _, _)| at == t) {
                            parts.push(n.clone());
                        } else if *t == Ty::Str {
                            parts.push(format!("\"{}\"", self.rng.pick(WORDS)));
                        } else {
                            ok = false;
                        }
                    }
                    if ok {
                        info.parents.push(p);
                        parent_txt.push(format!("{}({})", self.classes[p].name, parts.join(", ")));
                    }
                }
            }
        }
        // members
        let nf = self.rng.below(4) as usize;
        let nm = self.rng.below(4) as usize;
        let mut member_lines: Vec<(bool, String)> = vec![];
        for _ in 0..nf {
            let t = self.prim();
            // sometimes reuse the name of a field of an earlier class (with whatever type comes
            // up): a later class that has both as parents then inherits a clashing member
            let earlier: Vec<String> = self
                .plain_classes()
                .into_iter()
                .flat_map(|c| self.classes[c].fields.iter().map(|(n, _)| n.clone()).collect::<Vec<_>>())
                .filter(|n| !info.fields.iter().any(|(m, _)| m == n))
                .collect();
            let n = if !self.fenced.contains("multi_parent_member_clash") && !earlier.is_empty() && self.rng.chance(1, 5) {
                self.rng.pick(&earlier).clone()
            } else {
                self.fresh("f")
            };
            let l = self.lit(&t);
            member_lines.push((false, format!("    def {}: {} := {}", n, self.ty_name(&t), l)));
            info.fields.push((n, t));
        }
        // the class is visible to its own methods only through self; register before bodies
        let ci = self.classes.len();
        self.classes.push(info.clone());
        for _ in 0..nm {
            let mut ret = self.prim();
            // sometimes reuse the name (and maybe the return type) of a method of an earlier
            // class: unions of the two classes then have a method both members define
            let earlier: Vec<Method> = self
                .plain_classes()
                .into_iter()
                .filter(|&c| c != ci)
                .flat_map(|c| self.classes[c].methods.clone())
                .filter(|m| !self.classes[ci].methods.iter().any(|o| o.name == m.name))
                .collect();
            let n = if !earlier.is_empty() && self.rng.chance(1, 4) {
                let m = self.rng.pick(&earlier).clone();
                if self.rng.chance(2, 3) {
                    ret = m.ret.clone();
                }
                m.name
            } else {
                self.fresh("m")
            };
            let mut params = vec![];
            for _ in 0..self.rng.below(3) {
                params.push((self.fresh("p"), self.prim()));
            }
            // body: expression over parameters, own fields via self
            let saved = self.vars.clone();
            self.vars.clear();
            for (pn, pt) in &params {
                self.vars.push((pn.clone(), pt.clone()));
            }
            let own_fields = self.all_fields(ci);
            for (fname, ft) in own_fields {
                self.vars.push((format!("self.{fname}"), ft));
            }
            let body = self.expr(&ret, 1);
            self.vars = saved;
            let ptxt: Vec<String> = params.iter().map(|(pn, pt)| format!(", {}: {}", pn, self.ty_name(pt))).collect();
            member_lines.push((true, format!("    def {}(self{}) -> {} => {}", n, ptxt.join(""), self.ty_name(&ret), body)));
            let m = Method { name: n, params, ret };
            self.classes[ci].methods.push(m);
        }
        if !self.fenced.contains("class_method_before_fields") && self.rng.chance(1, 2) {
            self.rng.shuffle(&mut member_lines);
        }
        let args_txt = if info.args.is_empty() {
            if self.rng.chance(1, 4) { "()".to_string() } else { String::new() }
        } else {
            let parts: Vec<String> = info
                .args
                .iter()
                .map(|(n, t, is_field, has_default)| {
                    let d = if *has_default { format!(" := {}", self.lit_const(t)) } else { String::new() };
                    format!("{}{}: {}{}", if *is_field { "def " } else { "" }, n, self.ty_name(t), d)
                })
                .collect();
            format!("({})", parts.join(", "))
        };
        let ptxt = if parent_txt.is_empty() { String::new() } else { format!(": {}", parent_txt.join(", ")) };
        self.out.push_str(&format!("class {}{}{}\n", name, args_txt, ptxt));
        for (_, l) in &member_lines {
            self.out.push_str(l);
            self.out.push('\n');
        }
        self.out.push('\n');
    }

    fn lit_const(&self, t: &Ty) -> String {
        match t {
            Ty::Int => "7".into(),
            Ty::Str => "\"dflt\"".into(),
            Ty::Bool => "True".into(),
            Ty::Float => "1.5".into(),
            Ty::Class(_) => "None".into(),
        }
    }

    fn gen_exceptions(&mut self) {
        let n = self.rng.range(1, 3);
        let mut made: Vec<usize> = vec![];
        for _ in 0..n {
            self.counter += 1;
            let name = format!("{}Err{}", capitalise(&self.prefix), self.counter);
            let parent = if !made.is_empty() && self.rng.chance(1, 2) { Some(*self.rng.pick(&made)) } else { None };
            let ptxt = match parent {
                Some(p) => format!("{}(msg)", self.classes[p].name),
                None => "Exception(msg)".to_string(),
            };
            self.out.push_str(&format!("class {}(msg: Str): {}\n", name, ptxt));
            self.classes.push(ClassInfo {
                name,
                args: vec![("msg".into(), Ty::Str, false, false)],
                fields: vec![],
                methods: vec![],
                parents: parent.into_iter().collect(),
                is_exception: true,
            });
            made.push(self.classes.len() - 1);
        }
        // an unrelated exception for the "covered through an ancestor" production below:
        // defined here with the others, or later right before its use
        let with_cover = self.rng.chance(1, 2);
        let mut other_early: Option<String> = None;
        if with_cover && self.rng.chance(2, 3) {
            self.counter += 1;
            let other = format!("{}Err{}", capitalise(&self.prefix), self.counter);
            self.out.push_str(&format!("class {other}(msg: Str): Exception(msg)\n"));
            self.classes.push(ClassInfo { name: other.clone(), args: vec![("msg".into(), Ty::Str, false, false)], fields: vec![], methods: vec![], parents: vec![], is_exception: true });
            other_early = Some(other);
        }
        self.out.push('\n');
        // a raising function and a handled use
        let k = self.rng.range(1, made.len() as u64) as usize;
        let mut raised = made.clone();
        self.rng.shuffle(&mut raised);
        raised.truncate(k);
        let fname = self.fresh("r");
        let ret = if self.rng.chance(1, 2) { Ty::Int } else { Ty::Str };
        let names: Vec<String> = raised.iter().map(|&e| self.classes[e].name.clone()).collect();
        self.out.push_str(&format!("def {}(x: Int) -> {} raise [{}] =>\n", fname, self.ty_name(&ret), names.join(", ")));
        // nested if/else chain as in tests/resource/valid/error/handle.mamba
        let mut indent = "    ".to_string();
        for (i, en) in names.iter().enumerate() {
            self.out.push_str(&format!("{indent}if x < {} then\n{indent}    raise {}(\"{}\")\n{indent}else\n", i * 10, en, self.rng.pick(WORDS)));
            indent.push_str("    ");
        }
        let l = self.lit(&ret);
        self.out.push_str(&format!("{indent}return {}\n\n", l));
        self.funs.push(FunInfo { name: fname.clone(), params: vec![("x".into(), Ty::Int, false)], ret: ret.clone(), raises: raised.clone() });
        // handled use (mostly)
        if !with_cover || self.rng.chance(1, 2) {
            let v = self.fresh("h");
            self.out.push_str(&format!("def {} := {}({}) handle\n", v, fname, self.rng.below(30)));
            let mut order = raised.clone();
            if self.rng.chance(1, 2) {
                self.rng.shuffle(&mut order);
            }
            for &e in &order {
                let l = self.lit(&ret);
                if self.rng.chance(1, 2) {
                    self.out.push_str(&format!("    err: {} => {}\n", self.classes[e].name, l));
                } else {
                    self.out.push_str(&format!("    err: {} =>\n        print(\"{}\")\n        {}\n", self.classes[e].name, self.rng.pick(WORDS), l));
                }
            }
            self.out.push('\n');
            self.vars.push((v, ret.clone()));
        }
        // inside function bodies: the raised exceptions covered through their ancestors only,
        // next to an unrelated exception — by declaration (`raise [Parent, Other]`) or by
        // `handle` arms, in either order
        if with_cover {
            let other = match other_early {
                Some(o) => o,
                None => {
                    self.counter += 1;
                    let other = format!("{}Err{}", capitalise(&self.prefix), self.counter);
                    self.out.push_str(&format!("class {other}(msg: Str): Exception(msg)\n\n"));
                    self.classes.push(ClassInfo { name: other.clone(), args: vec![("msg".into(), Ty::Str, false, false)], fields: vec![], methods: vec![], parents: vec![], is_exception: true });
                    other
                }
            };
            // cover: for each raised exception its top-most generated ancestor (or itself)
            let mut cover: Vec<String> = vec![];
            for &e in &raised {
                let mut top = e;
                while let Some(&p) = self.classes[top].parents.first() {
                    top = p;
                }
                let n = self.classes[top].name.clone();
                if !cover.contains(&n) {
                    cover.push(n);
                }
            }
            cover.push(other);
            if self.rng.chance(1, 2) {
                self.rng.shuffle(&mut cover);
            }
            let g = self.fresh("rf");
            if self.rng.chance(1, 2) {
                self.out.push_str(&format!("def {g}(x: Int) -> {} raise [{}] => {fname}(x)\n\n", self.ty_name(&ret), cover.join(", ")));
            } else {
                self.out.push_str(&format!("def {g}(x: Int) -> {} =>\n    {fname}(x) handle\n", self.ty_name(&ret)));
                for c in &cover {
                    let l = self.lit(&ret);
                    self.out.push_str(&format!("        err: {c} => {l}\n"));
                }
                self.out.push('\n');
            }
        }
    }

    fn gen_function(&mut self) {
        let name = self.fresh("fn");
        let ret = self.any_ty();
        let mut params: Vec<(String, Ty, bool)> = vec![];
        for k in 0..self.rng.below(4) {
            let t = if self.rng.chance(1, 4) { self.any_ty() } else { self.prim() };
            let has_default = k > 0 && !matches!(t, Ty::Class(_)) && self.rng.chance(1, 3);
            params.push((self.fresh("p"), t, has_default));
        }
        let mut seen = false;
        for p in params.iter_mut() {
            if p.2 {
                seen = true;
            } else if seen && !matches!(p.1, Ty::Class(_)) {
                p.2 = true;
            } else if seen {
                // a class-typed parameter after a defaulted one: drop the defaults before it
                seen = false;
            }
        }
        // make defaults a suffix
        let mut suffix = true;
        for p in params.iter_mut().rev() {
            if !p.2 {
                suffix = false;
            }
            if !suffix {
                p.2 = false;
            }
        }
        let saved = self.vars.clone();
        self.vars.clear();
        for (n, t, _) in &params {
            self.vars.push((n.clone(), t.clone()));
        }
        let ptxt: Vec<String> = params
            .iter()
            .map(|(n, t, d)| format!("{}: {}{}", n, self.ty_name(t), if *d { format!(" := {}", self.lit_const(t)) } else { String::new() }))
            .collect();
        let head = format!("def {}({}) -> {} =>", name, ptxt.join(", "), self.ty_name(&ret));
        match self.rng.below(4) {
            0 => {
                let e = self.expr(&ret, 0);
                self.out.push_str(&format!("{head} {e}\n\n"));
            }
            1 => {
                let c = self.cond();
                let a = self.expr(&ret, 1);
                let b = self.expr(&ret, 1);
                self.out.push_str(&format!("{head}\n    if {c} then\n        return {a}\n    else\n        return {b}\n\n"));
            }
            2 => {
                let scrut = self.expr(&Ty::Int, 1);
                let a = self.expr(&ret, 1);
                let b = self.expr(&ret, 1);
                let c = self.expr(&ret, 1);
                self.out.push_str(&format!("{head}\n    match {scrut}\n        1 => {a}\n        2 => {b}\n        _ => {c}\n\n"));
            }
            _ => {
                let t = self.prim();
                let l = self.expr(&t, 1);
                let local = self.fresh("l");
                self.vars.push((local.clone(), t));
                let e = self.expr(&ret, 1);
                self.out.push_str(&format!("{head}\n    def {local} := {l}\n    {e}\n\n"));
            }
        }
        self.vars = saved;
        self.funs.push(FunInfo { name, params, ret, raises: vec![] });
    }

    /// `{T1, T2[, T3]}` with distinct members
    fn union_ty(&mut self) -> (String, Vec<Ty>) {
        let n = self.rng.range(2, 3) as usize;
        let mut tys: Vec<Ty> = vec![];
        let avoid_related = self.fenced.contains("union_of_related_types");
        for _ in 0..12 {
            let t = self.any_ty();
            let related = |a: &Ty, b: &Ty, g: &Self| match (a, b) {
                (Ty::Int, Ty::Float) | (Ty::Float, Ty::Int) => true,
                (Ty::Class(x), Ty::Class(y)) => g.is_subclass(*x, *y) || g.is_subclass(*y, *x),
                _ => false,
            };
            if !tys.contains(&t) && !(avoid_related && tys.iter().any(|o| related(o, &t, self))) {
                tys.push(t);
            }
            if tys.len() == n {
                break;
            }
        }
        if tys.len() < 2 {
            tys = vec![Ty::Int, Ty::Str];
        }
        let names: Vec<String> = tys.iter().map(|t| self.ty_name(t)).collect();
        (format!("{{{}}}", names.join(", ")), tys)
    }

    /// a function whose parameter and/or return type is a written union, and maybe a call
    fn gen_union_sig_function(&mut self) {
        let name = self.fresh("ufn");
        let (pt, ptys) = self.union_ty();
        let (rt, rtys) = self.union_ty();
        let p = self.fresh("p");
        let body = self.lit(&rtys[0]);
        let no_union_ret = self.fenced.contains("written_union_return_type");
        match if no_union_ret { 1 } else { self.rng.below(3) } {
            0 => self.out.push_str(&format!("def {name}({p}: {pt}) -> {rt} => {body}\n\n")),
            1 => self.out.push_str(&format!("def {name}({p}: {pt}) -> {} => {}\n\n", self.ty_name(&rtys[0]), body)),
            _ => {
                let q = self.fresh("p");
                let qt = self.prim();
                self.out.push_str(&format!("def {name}({q}: {}) -> {rt} => {body}\n\n", self.ty_name(&qt)));
                if self.rng.chance(1, 2) {
                    let v = self.fresh("v");
                    let a = self.lit(&qt);
                    self.out.push_str(&format!("def {v} := {name}({a})\n"));
                }
                return;
            }
        }
        if self.rng.chance(1, 2) {
            let v = self.fresh("v");
            let k = self.rng.below(ptys.len() as u64) as usize;
            let a = self.lit(&ptys[k]);
            self.out.push_str(&format!("def {v} := {name}({a})\n"));
        }
    }

    /// operations whose receiver / operand has a (written) union type: method calls on a union
    /// of two classes that share a method name, operators and `in` on unions of primitives and
    /// collections, loops over union-typed collections
    fn gen_union_receiver(&mut self, v: &str) {
        // two classes sharing a method name
        let pc = self.plain_classes();
        let mut pairs: Vec<(usize, usize, String)> = vec![];
        for &a in &pc {
            for &b in &pc {
                if a < b {
                    for m in &self.classes[a].methods {
                        if self.classes[b].methods.iter().any(|o| o.name == m.name) {
                            pairs.push((a, b, m.name.clone()));
                        }
                    }
                }
            }
        }
        let choice = self.rng.below(6);
        if !pairs.is_empty() && choice <= 2 {
            let (a, b, m) = self.rng.pick(&pairs).clone();
            let (an, bn) = (self.classes[a].name.clone(), self.classes[b].name.clone());
            let which = if self.rng.chance(1, 2) { a } else { b };
            let ctor = self.ctor(which, 2);
            self.out.push_str(&format!("def {v}: {{{an}, {bn}}} := {ctor}\n"));
            // arguments that fit one of the two signatures
            let sig = self.classes[if self.rng.chance(1, 2) { a } else { b }].methods.iter().find(|o| o.name == m).cloned().unwrap();
            let args: Vec<String> = sig.params.iter().map(|(_, t)| self.lit(t)).collect();
            let r = self.fresh("v");
            if self.rng.chance(1, 2) {
                self.out.push_str(&format!("def {r} := {v}.{m}({})\n", args.join(", ")));
            } else {
                self.out.push_str(&format!("{v}.{m}({})\n", args.join(", ")));
            }
            return;
        }
        let mut prims = vec![Ty::Int, Ty::Str, Ty::Bool, Ty::Float];
        self.rng.shuffle(&mut prims);
        if self.fenced.contains("union_of_related_types") && matches!((&prims[0], &prims[1]), (Ty::Int, Ty::Float) | (Ty::Float, Ty::Int)) {
            prims.swap(1, 2);
        }
        let (t1, t2) = (prims[0].clone(), prims[1].clone());
        let (n1, n2) = (self.ty_name(&t1), self.ty_name(&t2));
        let r = self.fresh("v");
        match choice {
            3 => {
                let l = self.lit(&t1);
                let o = if self.rng.chance(1, 2) { self.lit(&t1) } else { self.lit(&t2) };
                let op = *self.rng.pick(&["=", "+", "<", "!="]);
                self.out.push_str(&format!("def {v}: {{{n1}, {n2}}} := {l}\ndef {r} := {v} {op} {o}\n"));
            }
            4 => {
                let (c1, c2) = if self.rng.chance(1, 2) { ("List", "Set") } else { ("List", "List") };
                let lit = format!("[{}]", self.lit(&t1));
                let probe = if self.rng.chance(1, 2) { self.lit(&t1) } else { self.lit(&t2) };
                self.out.push_str(&format!("def {v}: {{{c1}[{n1}], {c2}[{n2}]}} := {lit}\ndef {r} := {probe} in {v}\n"));
            }
            _ => {
                let lit = format!("[{}]", self.lit(&t1));
                let i = self.fresh("i");
                let w = self.fresh("w");
                self.out.push_str(&format!("def {v}: {{List[{n1}], Set[{n2}]}} := {lit}\nfor {i} in {v} do\n    def {w} := {i}\n"));
            }
        }
    }

    /// user-declared generic classes: two placeholders, fields and methods typed with them, a
    /// second generic class that instantiates the first with its OWN placeholder in another
    /// position (`Table[V, Int]` inside `Index[V]`) and reads fields back through it
    fn gen_user_generics(&mut self) {
        self.counter += 1;
        let t = format!("{}G{}", capitalise(&self.prefix), self.counter);
        self.counter += 1;
        let i = format!("{}G{}", capitalise(&self.prefix), self.counter);
        let (k, v) = if self.rng.chance(1, 2) { ("K", "V") } else { ("A", "B") };
        let coll = *self.rng.pick(&["List", "Set"]);
        let (fk, fv) = (self.fresh("f"), self.fresh("f"));
        self.out.push_str(&format!("class {t}[{k}, {v}](def {fk}: {coll}[{k}], def {fv}: {coll}[{v}])\n\n"));
        let pt = self.prim();
        let prim = self.ty_name(&pt);
        // the second class reuses ITS placeholder name: the same as one of the first class's
        // placeholders, in the other position, or a fresh one
        let own = *self.rng.pick(&[v, k, "T"]);
        let args = if self.rng.chance(1, 2) { format!("{own}, {prim}") } else { format!("{prim}, {own}") };
        let ft = self.fresh("f");
        self.out.push_str(&format!("class {i}[{own}](def {ft}: {t}[{args}])\n"));
        let (m1, m2) = (self.fresh("m"), self.fresh("m"));
        match self.rng.below(3) {
            0 => {
                let first_is_own = args.starts_with(own);
                let (r1, r2) = if first_is_own { (own.to_string(), prim.clone()) } else { (prim.clone(), own.to_string()) };
                self.out.push_str(&format!("    def {m1}(self) -> {coll}[{r1}] => self.{ft}.{fk}\n    def {m2}(self) -> {coll}[{r2}] => self.{ft}.{fv}\n\n"));
            }
            1 => {
                let n = self.fresh("l");
                self.out.push_str(&format!("    def {m1}(self) =>\n        def {n} := self.{ft}.{fk}\n        print({n})\n\n"));
            }
            _ => {
                let n = self.fresh("l");
                self.out.push_str(&format!("    def {m1}(self) =>\n        def {n} := self.{ft}.{fv}\n        print({n})\n\n"));
            }
        }
        // and, rarely, an instantiation (the language cannot construct a generic class: this
        // only keeps the rejecting path in the mix)
        if self.rng.chance(1, 8) {
            let x = self.fresh("v");
            let (a, b) = (self.prim(), self.prim());
            let (la, lb) = (self.lit(&a), self.lit(&b));
            let (o, c) = if coll == "List" { ("[", "]") } else { ("{ ", " }") };
            let y = self.fresh("v");
            self.out.push_str(&format!("def {x} := {t}({o}{la}{c}, {o}{lb}{c})\ndef {y} := {x}.{fk}\n"));
        }
    }

    /// a written union that holds a subtype CHAIN of three (A, B: A, C: B — or Int, Float,
    /// Complex through the stub operators), with an argument whose type is inferred
    fn gen_chain_union(&mut self) {
        if self.rng.chance(1, 3) {
            // the stub's Complex operators take Union[int, float, complex]
            let x = self.fresh("v");
            let z = self.fresh("v");
            let op = *self.rng.pick(&["+", "-", "*"]);
            let lit = if self.rng.chance(1, 2) { format!("{}", self.rng.below(50)) } else { format!("{}.5", self.rng.below(50)) };
            self.out.push_str(&format!("def {x} := {lit}\ndef {z} := Complex({}, {}) {op} {x}\n", self.rng.below(9), self.rng.below(9)));
            return;
        }
        // find a chain among the visible classes, else make one
        let pc = self.plain_classes();
        let mut chain: Option<(usize, usize, usize)> = None;
        for &c in &pc {
            for &b in &pc {
                for &a in &pc {
                    if a != b && b != c && self.classes[c].parents.contains(&b) && self.classes[b].parents.contains(&a) && self.classes[a].args.is_empty() && self.classes[b].args.is_empty() && self.classes[c].args.is_empty() {
                        chain = Some((a, b, c));
                    }
                }
            }
        }
        let (a, b, c) = match chain {
            Some(x) => x,
            None => {
                let mut idx: Vec<usize> = vec![];
                for k in 0..3 {
                    self.counter += 1;
                    let name = format!("{}C{}", capitalise(&self.prefix), self.counter);
                    let f = self.fresh("f");
                    let parent = if k == 0 { String::new() } else { format!(": {}", self.classes[idx[k - 1]].name) };
                    let parents: Vec<usize> = if k == 0 { vec![] } else { vec![idx[k - 1]] };
                    self.out.push_str(&format!("class {name}{parent}\n    def {f}: Int := {}\n\n", self.rng.below(90)));
                    self.classes.push(ClassInfo { name, args: vec![], fields: vec![(f, Ty::Int)], methods: vec![], parents, is_exception: false });
                    idx.push(self.classes.len() - 1);
                }
                (idx[0], idx[1], idx[2])
            }
        };
        let mut names = vec![self.classes[a].name.clone(), self.classes[b].name.clone(), self.classes[c].name.clone()];
        if self.rng.chance(1, 2) {
            self.rng.shuffle(&mut names);
        }
        let f = self.fresh("cfn");
        let p = self.fresh("p");
        self.out.push_str(&format!("def {f}({p}: {{{}}}) => print(\"{}\")\n", names.join(", "), self.rng.pick(WORDS)));
        let which = *self.rng.pick(&[a, b, c]);
        let v = self.fresh("v");
        let ctor = self.ctor(which, 2);
        self.out.push_str(&format!("def {v} := {ctor}\n{f}({v})\n"));
    }

    /// a parameter (of a function or of a class) whose written type is a union with ONE
    /// nullable alternative, called with an argument whose static type is itself nullable
    /// (a `T?` variable, a call returning `T?`)
    fn gen_nullable_union_param(&mut self) {
        let a = self.prim();
        let mut b = self.prim();
        if b == a {
            b = if a == Ty::Int { Ty::Str } else { Ty::Int };
        }
        let (an, bn) = (self.ty_name(&a), self.ty_name(&b));
        let members = if self.rng.chance(1, 2) { format!("{an}?, {bn}") } else { format!("{bn}, {an}?") };
        let arg = if self.rng.chance(1, 2) {
            let q = self.fresh("v");
            if self.rng.chance(1, 2) {
                self.out.push_str(&format!("def {q}: {an}? := None\n"));
            } else {
                let l = self.lit(&a);
                self.out.push_str(&format!("def {q}: {an}? := {l}\n"));
            }
            q
        } else {
            let f = self.fresh("nfn");
            self.out.push_str(&format!("def {f}() -> {an}? => None\n"));
            format!("{f}()")
        };
        if self.rng.chance(1, 2) {
            let f = self.fresh("nufn");
            let r = self.fresh("v");
            self.out.push_str(&format!("def {f}(x: {{{members}}}) -> Str => \"{}\"\ndef {r} := {f}({arg})\n", self.rng.pick(WORDS)));
        } else {
            self.counter += 1;
            let c = format!("{}N{}", capitalise(&self.prefix), self.counter);
            let (fld, m, r) = (self.fresh("f"), self.fresh("m"), self.fresh("v"));
            self.out.push_str(&format!("class {c}(def {fld}: {{{members}}})\n    def {m}(self) -> Str => \"{}\"\n\ndef {r} := {c}({arg})\n", self.rng.pick(WORDS)));
        }
    }

    /// define a value, show it through a helper with a one-letter name, define another: the
    /// placeholder of the string sits in the column (and has the width) of the variables of the
    /// definitions around it
    fn gen_show_values(&mut self) {
        let h = ["q", "w", "k", "z", "j"][self.cur_file % 5];
        if self.fstr_helper.insert(self.cur_file) {
            self.out.push_str(&format!("def {h}(s: Str) => print(s)\n"));
        }
        let a = self.fresh("v");
        let ta = self.prim();
        let la = self.lit(&ta);
        self.out.push_str(&format!("def {a} := {la}\n"));
        if self.rng.chance(1, 2) {
            self.out.push_str(&format!("{h}(\"{{{a}}}\")\n"));
        } else {
            self.out.push_str(&format!("{h}(\"{{{a}}} {}\")\n", self.rng.pick(WORDS)));
        }
        let b = self.fresh("v");
        let tb = self.prim();
        let lb = self.lit(&tb);
        self.out.push_str(&format!("def {b} := {lb}\n"));
        self.vars.push((a, ta));
        self.vars.push((b, tb));
    }

    /// A clash of same-named members BELOW the direct parents: two classes define a method
    /// and a field of one name with different types, a third has both as parents, and the
    /// members are used through a child (or grandchild) of the third.  Which one is
    /// inherited must be decided the same way every time, at every depth.
    fn gen_deep_clash(&mut self) {
        let (m, f) = (self.fresh("dm"), self.fresh("df"));
        let ta = self.prim();
        let mut tb = self.prim();
        if tb == ta {
            tb = if ta == Ty::Int { Ty::Str } else { Ty::Int };
        }
        let mut mk = |g: &mut Self, mt: &Ty, ft: &Ty, parents: Vec<usize>, members: bool| -> usize {
            g.counter += 1;
            let name = format!("{}C{}", capitalise(&g.prefix), g.counter);
            let ptxt = if parents.is_empty() { String::new() } else { format!(": {}", parents.iter().map(|&p| g.classes[p].name.clone()).collect::<Vec<_>>().join(", ")) };
            let own = g.fresh("f");
            g.out.push_str(&format!("class {name}{ptxt}\n"));
            let mut info = ClassInfo { name, args: vec![], fields: vec![], methods: vec![], parents, is_exception: false };
            if members {
                let (ml, fl) = (g.lit(mt), g.lit(ft));
                g.out.push_str(&format!("    def {f}: {} := {fl}\n    def {m}(self) -> {} => {ml}\n", g.ty_name(ft), g.ty_name(mt)));
                info.fields.push((f.clone(), ft.clone()));
                info.methods.push(Method { name: m.clone(), params: vec![], ret: mt.clone() });
            } else {
                g.out.push_str(&format!("    def {own}: Int := {}\n", g.rng.below(90)));
                info.fields.push((own, Ty::Int));
            }
            g.out.push('\n');
            g.classes.push(info);
            g.classes.len() - 1
        };
        let a = mk(self, &ta, &tb, vec![], true);
        let b = mk(self, &tb, &ta, vec![], true);
        let both = if self.rng.chance(1, 2) { vec![a, b] } else { vec![b, a] };
        let mid = mk(self, &Ty::Int, &Ty::Int, both, false);
        let mut leaf = mk(self, &Ty::Int, &Ty::Int, vec![mid], false);
        if self.rng.chance(1, 3) {
            leaf = mk(self, &Ty::Int, &Ty::Int, vec![leaf], false);
        }
        let v = self.fresh("v");
        self.out.push_str(&format!("def {v} := {}()\n", self.classes[leaf].name));
        // the uses: typed with one of the two candidates (accepted or rejected — the same every
        // time), or left to inference (the annotation shows the winner)
        for _ in 0..self.rng.range(1, 3) {
            let r = self.fresh("v");
            let access = if self.rng.chance(1, 2) { format!("{v}.{m}()") } else { format!("{v}.{f}") };
            match self.rng.below(3) {
                0 => self.out.push_str(&format!("def {r} := {access}\n")),
                1 => self.out.push_str(&format!("def {r}: {} := {access}\n", self.ty_name(&ta))),
                _ => self.out.push_str(&format!("def {r}: {} := {access}\n", self.ty_name(&tb))),
            }
        }
    }

    /// functions as values: function-typed parameters, unions of function types (also of
    /// different arity), calls through them, anonymous functions as arguments
    fn gen_callable(&mut self) {
        let f = self.fresh("hof");
        let p = self.fresh("p");
        let x = self.fresh("p");
        let (a, r) = (self.prim(), self.prim());
        let (an, rn) = (self.ty_name(&a), self.ty_name(&r));
        match self.rng.below(4) {
            0 => {
                // single function type and a call with an anonymous function
                self.out.push_str(&format!("def {f}({p}: ({an}) -> {rn}, {x}: {an}) -> {rn} => {p}({x})\n"));
                let z = self.fresh("z");
                let body = if a == r { z.clone() } else { self.lit(&r) };
                let arg = self.lit(&a);
                if self.rng.chance(2, 3) {
                    self.out.push_str(&format!("{f}(\\{z}: {an} => {body}, {arg})\n"));
                }
            }
            1 => {
                // union of function types with different arities, called with one argument
                let b = self.prim();
                let bn = self.ty_name(&b);
                let members = if self.rng.chance(1, 2) { format!("({an}) -> {rn}, ({an}, {bn}) -> {rn}") } else { format!("({an}, {bn}) -> {rn}, ({an}) -> {rn}") };
                if self.rng.chance(1, 2) {
                    self.out.push_str(&format!("def {f}({p}: {{{members}}}, {x}: {an}) -> {rn} => {p}({x})\n"));
                } else {
                    let y = self.fresh("p");
                    self.out.push_str(&format!("def {f}({p}: {{{members}}}, {x}: {an}, {y}: {bn}) -> {rn} => {p}({x}, {y})\n"));
                }
            }
            2 => {
                // union of function types of one arity with different parameter types
                let mut b = self.prim();
                if b == a || (self.fenced.contains("union_of_related_types") && matches!((&a, &b), (Ty::Int, Ty::Float) | (Ty::Float, Ty::Int))) {
                    b = if a == Ty::Str { Ty::Bool } else { Ty::Str };
                }
                let bn = self.ty_name(&b);
                let arg = self.lit(&a);
                self.out.push_str(&format!("def {f}({p}: {{({an}) -> {rn}, ({bn}) -> {rn}}}) -> {rn} => {p}({arg})\n"));
            }
            _ => {
                // function returning a function type, default argument
                let d = self.lit_const(&a);
                self.out.push_str(&format!("def {f}({p}: ({an}) -> {rn}, {x}: {an} := {d}) -> {rn} => {p}({x})\n"));
                let z = self.fresh("z");
                let body = if a == r { z.clone() } else { self.lit(&r) };
                self.out.push_str(&format!("print({f}(\\{z}: {an} => {body}))\n"));
            }
        }
    }

    /// an interface with bodiless members and a class implementing it
    pub fn gen_interface_pair(&mut self) {
        self.counter += 1;
        let iname = format!("{}I{}", capitalise(&self.prefix), self.counter);
        let m = self.fresh("m");
        let (pt, rt) = (self.prim(), self.prim());
        let p = self.fresh("p");
        let with_field = self.rng.chance(1, 2);
        let f = self.fresh("f");
        let ft = self.prim();
        self.out.push_str(&format!("type {iname}\n    def {m}(self, {p}: {}) -> {}\n", self.ty_name(&pt), self.ty_name(&rt)));
        if with_field {
            self.out.push_str(&format!("    def {f}: {}\n", self.ty_name(&ft)));
        }
        self.out.push('\n');
        // the interface itself: usable as a parent of later classes and as a parameter type
        let ii = self.classes.len();
        self.classes.push(ClassInfo { name: iname.clone(), args: vec![], fields: vec![], methods: vec![], parents: vec![], is_exception: false });
        self.interfaces.insert(ii);
        self.counter += 1;
        let cname = format!("{}C{}", capitalise(&self.prefix), self.counter);
        // sometimes through an intermediate class, and with the interface repeated as a parent
        let mut parent_list = iname.clone();
        let mut parents_idx = vec![ii];
        if self.rng.chance(1, 3) {
            self.counter += 1;
            let bname = format!("{}C{}", capitalise(&self.prefix), self.counter);
            let body0 = self.lit(&rt);
            self.out.push_str(&format!("class {bname}: {iname}\n"));
            if with_field {
                let l0 = self.lit(&ft);
                self.out.push_str(&format!("    def {f}: {} := {l0}\n", self.ty_name(&ft)));
            }
            self.out.push_str(&format!("    def {m}(self, {p}: {}) -> {} => {body0}\n\n", self.ty_name(&pt), self.ty_name(&rt)));
            let bi = self.classes.len();
            let mut binfo = ClassInfo { name: bname.clone(), args: vec![], fields: vec![], methods: vec![Method { name: m.clone(), params: vec![(p.clone(), pt.clone())], ret: rt.clone() }], parents: vec![ii], is_exception: false };
            if with_field {
                binfo.fields.push((f.clone(), ft.clone()));
            }
            self.classes.push(binfo);
            parent_list = if self.rng.chance(1, 2) { format!("{bname}, {iname}") } else { bname.clone() };
            parents_idx = vec![bi, ii];
        }
        self.out.push_str(&format!("class {cname}: {parent_list}\n"));
        let mut info = ClassInfo { name: cname.clone(), args: vec![], fields: vec![], methods: vec![], parents: parents_idx, is_exception: false };
        if with_field {
            let l = self.lit(&ft);
            self.out.push_str(&format!("    def {f}: {} := {l}\n", self.ty_name(&ft)));
            info.fields.push((f, ft));
        }
        let body = self.lit(&rt);
        self.out.push_str(&format!("    def {m}(self, {p}: {}) -> {} => {body}\n\n", self.ty_name(&pt), self.ty_name(&rt)));
        info.methods.push(Method { name: m, params: vec![(p, pt)], ret: rt });
        self.classes.push(info);
        // sometimes an interface with a body over the concrete class
        if self.rng.chance(1, 2) {
            self.counter += 1;
            let tname = format!("{}I{}", capitalise(&self.prefix), self.counter);
            let m2 = self.fresh("m");
            let r2 = self.prim();
            self.out.push_str(&format!("type {tname}: {cname}\n    def {m2}(self) -> {}\n\n", self.ty_name(&r2)));
        }
    }

    /// a refinement alias of a class with an Int field, and a function taking it
    fn gen_alias(&mut self) {
        let pc = self.plain_classes();
        let cands: Vec<(usize, String)> = pc.iter().flat_map(|&c| self.classes[c].fields.iter().filter(|(_, t)| *t == Ty::Int).map(move |(n, _)| (c, n.clone())).collect::<Vec<_>>()).collect();
        if cands.is_empty() {
            self.counter += 1;
            let a = format!("{}A{}", capitalise(&self.prefix), self.counter);
            self.out.push_str(&format!("type {a}: Int when self >= 0\n"));
            return;
        }
        let (c, f) = self.rng.pick(&cands).clone();
        self.counter += 1;
        let a = format!("{}A{}", capitalise(&self.prefix), self.counter);
        let cn = self.classes[c].name.clone();
        self.out.push_str(&format!("type {a}: {cn} when self.{f} > {}\n", self.rng.below(9)));
        let fname = self.fresh("afn");
        let p = self.fresh("p");
        self.out.push_str(&format!("def {fname}({p}: {a}) -> Int => {p}.{f}\n"));
    }

    /// unions whose members share a class name and differ in generics or nullability:
    /// lists / sets / tuples of different element types, `{T, T?}`
    fn gen_same_class_union(&mut self, v: &str) {
        let mut prims = vec![Ty::Int, Ty::Str, Ty::Bool, Ty::Float];
        self.rng.shuffle(&mut prims);
        let n = self.rng.range(2, 3) as usize;
        let coll = |g: &mut Self, t: &Ty, kind: u64| -> String {
            let items: Vec<String> = (0..g.rng.range(1, 2)).map(|_| g.lit(t)).collect();
            match kind {
                0 => format!("[{}]", items.join(", ")),
                1 => format!("{{ {} }}", items.join(", ")),
                _ => {
                    let other = g.lit(&Ty::Int);
                    format!("({}, {})", items[0], other)
                }
            }
        };
        let kind = self.rng.below(3);
        let arms: Vec<String> = (0..n).map(|i| coll(self, &prims[i].clone(), kind)).collect();
        if self.rng.chance(1, 4) {
            // nested heterogeneous literals of one class: the element type of the outer literal
            // is a union of two Set[..] / List[..] whose element types are unions themselves
            let lits: Vec<String> = prims.iter().map(|t| self.lit(t)).collect();
            let (o, c) = if self.rng.chance(1, 2) { ("{ ", " }") } else { ("[ ", " ]") };
            let (io, ic) = if self.rng.chance(1, 2) { ("{ ", " }") } else { ("[ ", " ]") };
            if self.rng.chance(2, 3) {
                self.out.push_str(&format!("def {v} := {o}{io}{}, {}{ic}, {io}{}, {}{ic}{c}\n", lits[0], lits[1], lits[2], lits[3]));
            } else {
                self.out.push_str(&format!("def {v} := {{ 1 => {io}{}, {}{ic}, 2 => {io}{}, {}{ic} }}\n", lits[0], lits[1], lits[2], lits[3]));
            }
            return;
        }
        match self.rng.below(4) {
            0 => {
                let c = self.cond();
                self.out.push_str(&format!("def {v} := if {c} then {} else {}\n", arms[0], arms[1]));
            }
            1 => {
                let scrut = self.leaf(&Ty::Int);
                self.out.push_str(&format!("def {v} := match {scrut}\n"));
                for (i, a) in arms.iter().enumerate() {
                    if i + 1 == arms.len() {
                        self.out.push_str(&format!("    _ => {a}\n"));
                    } else {
                        self.out.push_str(&format!("    {} => {a}\n", i + 1));
                    }
                }
            }
            2 => {
                // written union of generic instantiations in a signature
                let cname = *self.rng.pick(&["List", "Set"]);
                let tys: Vec<String> = (0..n).map(|i| format!("{}[{}]", cname, self.ty_name(&prims[i]))).collect();
                let u = format!("{{{}}}", tys.join(", "));
                let f = self.fresh("ufn");
                let p = self.fresh("p");
                if !self.fenced.contains("written_union_return_type") && self.rng.chance(1, 2) {
                    self.out.push_str(&format!("def {f}({p}: {u}) -> {u} => {p}\n"));
                } else {
                    self.out.push_str(&format!("def {f}({p}: {u}) => print(\"{}\")\n", self.rng.pick(WORDS)));
                }
            }
            _ => {
                // T and T? in one union
                let t = self.ty_name(&prims[0]);
                let l = self.lit(&prims[0].clone());
                match if self.fenced.contains("written_union_return_type") { 0 } else { self.rng.below(2) } {
                    0 => self.out.push_str(&format!("def {v}: {{{t}, {t}?}} := {l}\n")),
                    _ => {
                        let f = self.fresh("ufn");
                        let p = self.fresh("p");
                        self.out.push_str(&format!("def {f}({p}: {{{t}, {t}?}}) -> {{{t}, {t}?}} => {p}\n"));
                    }
                }
            }
        }
    }

    fn two_distinct_types(&mut self) -> (Ty, Ty) {
        let a = self.any_ty();
        for _ in 0..8 {
            let b = self.any_ty();
            if b != a {
                return (a, b);
            }
        }
        let b = if a == Ty::Int { Ty::Str } else { Ty::Int };
        (a, b)
    }

    fn gen_toplevel(&mut self) {
        let v = self.fresh("v");
        let kinds = if self.conservative { 17 } else { 37 };
        match self.rng.below(kinds) {
            18 | 19 | 20 => self.gen_same_class_union(&v),
            21 | 22 | 23 => self.gen_union_receiver(&v),
            24 => self.gen_alias(),
            25 | 26 => self.gen_callable(),
            27 | 28 => self.gen_chain_union(),
            29 | 30 => self.gen_user_generics(),
            31 | 32 => self.gen_deep_clash(),
            33 | 34 => self.gen_show_values(),
            35 | 36 => self.gen_nullable_union_param(),
            16 => {
                let (ut, tys) = self.union_ty();
                let k = self.rng.below(tys.len() as u64) as usize;
                let e = self.expr(&tys[k], 1);
                self.out.push_str(&format!("def {v}: {ut} := {e}\n"));
            }
            17 => self.gen_union_sig_function(),
            0 | 1 => {
                let pc = self.plain_classes();
                if pc.is_empty() {
                    let t = self.prim();
                    let e = self.expr(&t, 0);
                    self.out.push_str(&format!("def {v} := {e}\n"));
                    self.vars.push((v, t));
                } else {
                    let c = *self.rng.pick(&pc);
                    let e = self.ctor(c, 0);
                    self.out.push_str(&format!("def {v} := {e}\n"));
                    self.vars.push((v, Ty::Class(c)));
                }
            }
            2 | 3 => {
                let t = self.any_ty();
                let e = self.expr(&t, 0);
                self.out.push_str(&format!("def {}: {} := {}\n", v, self.ty_name(&t), e));
                self.vars.push((v, t));
            }
            4 | 5 => {
                // union by if-expression
                let (a, b) = self.two_distinct_types();
                let c = self.cond();
                let ea = self.expr(&a, 1);
                let eb = self.expr(&b, 1);
                self.out.push_str(&format!("def {v} := if {c} then {ea} else {eb}\n"));
            }
            6 | 7 => {
                // union by match with 2–4 result types
                let n = self.rng.range(2, 4) as usize;
                let mut tys = vec![];
                for _ in 0..n {
                    tys.push(self.any_ty());
                }
                let scrut = self.expr(&Ty::Int, 1);
                self.out.push_str(&format!("def {v} := match {scrut}\n"));
                for (i, t) in tys.iter().enumerate() {
                    let e = self.expr(t, 1);
                    if i + 1 == tys.len() {
                        self.out.push_str(&format!("    _ => {e}\n"));
                    } else {
                        self.out.push_str(&format!("    {} => {e}\n", i + 1));
                    }
                }
            }
            8 => {
                // mixed literal set / list
                let n = self.rng.range(2, 4);
                let mut parts = vec![];
                for _ in 0..n {
                    let t = self.any_ty();
                    parts.push(self.expr(&t, 2));
                }
                if self.rng.chance(1, 2) {
                    self.out.push_str(&format!("def {v} := {{ {} }}\n", parts.join(", ")));
                } else {
                    self.out.push_str(&format!("def {v} := [ {} ]\n", parts.join(", ")));
                }
                if self.rng.chance(1, 2) {
                    let i = self.fresh("i");
                    let w = self.fresh("w");
                    self.out.push_str(&format!("for {i} in {v} do\n    def {w} := {i}\n"));
                }
            }
            9 => {
                // nullable
                let t = self.prim();
                let e = self.expr(&t, 1);
                match self.rng.below(3) {
                    0 => {
                        self.out.push_str(&format!("def {}: {}? := {}\n", v, self.ty_name(&t), e));
                        let w = self.fresh("v");
                        let d = self.lit(&t);
                        self.out.push_str(&format!("def {w} := {v} ? {d}\n"));
                    }
                    1 => {
                        self.out.push_str(&format!("def {}: {}? := None\n", v, self.ty_name(&t)));
                        self.out.push_str(&format!("{v} := {e}\n"));
                    }
                    _ => {
                        let c = self.cond();
                        self.out.push_str(&format!("def {v} := if {c} then {e} else None\n"));
                    }
                }
            }
            10 => {
                // homogeneous list, indexing, comprehension
                let t = if self.rng.chance(1, 2) { Ty::Int } else { Ty::Str };
                let parts: Vec<String> = (0..self.rng.range(1, 4)).map(|_| self.expr(&t, 2)).collect();
                self.out.push_str(&format!("def {}: List[{}] := [{}]\n", v, self.ty_name(&t), parts.join(", ")));
                let w = self.fresh("v");
                self.out.push_str(&format!("def {w} := {v}[0]\n"));
                self.vars.push((w, t.clone()));
                if t == Ty::Int && self.rng.chance(1, 2) {
                    let u = self.fresh("v");
                    let x = self.fresh("x");
                    self.out.push_str(&format!("def {u} := [ {x} * 2 | {x} in {v}, {x} > 0 ]\n"));
                }
            }
            11 => {
                // tuple and destructuring
                let (a, b) = self.two_distinct_types();
                let ea = self.expr(&a, 2);
                let eb = self.expr(&b, 2);
                let (x, y) = (self.fresh("t"), self.fresh("t"));
                self.out.push_str(&format!("def ({x}, {y}) := ({ea}, {eb})\n"));
                self.vars.push((x, a));
                self.vars.push((y, b));
            }
            12 => {
                // shadowing: redefine an existing variable with another type
                if let Some((n, t)) = self.vars.iter().filter(|(n, _)| !n.contains('.')).last().cloned() {
                    let mut nt = self.prim();
                    if nt == t {
                        nt = if t == Ty::Int { Ty::Str } else { Ty::Int };
                    }
                    let e = self.expr(&nt, 1);
                    self.out.push_str(&format!("def {n} := {e}\n"));
                    self.vars.retain(|(m, _)| *m != n);
                    self.vars.push((n, nt));
                } else {
                    self.out.push_str(&format!("def {v} := 1\n"));
                    self.vars.push((v, Ty::Int));
                }
            }
            13 => {
                // loops
                let i = self.fresh("i");
                let hi = self.rng.range(1, 9);
                let acc = self.fresh("v");
                self.out.push_str(&format!("def {acc} := 0\nfor {i} in 0 ..= {hi} do {acc} := {acc} + {i}\n"));
                self.vars.push((acc, Ty::Int));
            }
            14 => {
                // f-string over primitive variables
                let names: Vec<String> = self.vars.iter().filter(|(_, t)| !matches!(t, Ty::Class(_))).map(|(n, _)| n.clone()).collect();
                if !names.is_empty() && self.rng.chance(1, 2) {
                    // through a helper with a one-letter name, the string starting with a
                    // placeholder: the placeholder then sits in the column where definitions
                    // have their variable
                    let h = ["q", "w", "k", "z", "j"][self.cur_file % 5];
                    if self.fstr_helper.insert(self.cur_file) {
                        self.out.push_str(&format!("def {h}(s: Str) => print(s)\n"));
                    }
                    let a = self.rng.pick(&names).clone();
                    let b = self.rng.pick(&names).clone();
                    if self.rng.chance(1, 2) {
                        self.out.push_str(&format!("{h}(\"{{{a}}}\")\n"));
                    } else {
                        self.out.push_str(&format!("{h}(\"{{{a}}} {} {{{b}}}\")\n", self.rng.pick(WORDS)));
                    }
                } else if !names.is_empty() {
                    let a = self.rng.pick(&names).clone();
                    let b = self.rng.pick(&names).clone();
                    self.out.push_str(&format!("print(\"{} is {{{}}} and {{{}}}\")\n", self.rng.pick(WORDS), a, b));
                } else {
                    self.out.push_str("print(\"nothing\")\n");
                }
            }
            _ => {
                // statement-level if with definitions in both arms
                let c = self.cond();
                let (a, b) = (self.prim(), self.prim());
                let ea = self.expr(&a, 1);
                let eb = self.expr(&b, 1);
                self.out.push_str(&format!("if {c} then\n    def {v} := {ea}\n    print({v})\nelse\n    def {v} := {eb}\n    print({v})\n"));
            }
        }
    }

    pub fn program(&mut self) {
        // the checker's cost grows steeply with the number of union-producing statements in one
        // file, so most programs are small and a minority is large
        let big = self.rng.chance(1, 16);
        let ncls = match self.rng.below(10) {
            0 => 0,
            1..=4 => self.rng.range(1, 2),
            _ => self.rng.range(2, if big { 6 } else { 4 }),
        };
        for _ in 0..ncls {
            self.gen_class();
        }
        if self.rng.chance(1, 5) {
            self.gen_interface_pair();
        }
        if self.rng.chance(1, 3) {
            self.gen_exceptions();
        }
        for _ in 0..self.rng.below(if big { 4 } else { 3 }) {
            self.gen_function();
        }
        let nt = if big { self.rng.range(5, 9) } else { self.rng.range(1, 4) };
        for _ in 0..nt {
            self.gen_toplevel();
        }
    }
}

impl<'a> Gen<'a> {
    /// A small program (cheap for the checker): used for the files of generated projects.
    pub fn small_program(&mut self) {
        let ncls = self.rng.below(3);
        for _ in 0..ncls {
            self.gen_class();
        }
        if self.rng.chance(1, 6) {
            self.gen_interface_pair();
        }
        if self.rng.chance(1, 5) {
            self.gen_exceptions();
        }
        for _ in 0..self.rng.below(2) {
            self.gen_function();
        }
        for _ in 0..self.rng.range(1, 3) {
            self.gen_toplevel();
        }
    }

    /// A line that certainly uses class `ci` (constructs it and reads back nothing else).
    pub fn use_line(&mut self, ci: usize) -> String {
        let v = self.fresh("use");
        let e = self.ctor(ci, 2);
        format!("def {v} := {e}\n")
    }

    /// A line that is ill-typed only because of a definition in ANOTHER (visible) file: a
    /// foreign class constructed, or a foreign function called, with a wrongly typed argument.
    pub fn cross_fault_line(&mut self, tag: &str) -> Option<String> {
        let wrong = |t: &Ty| if *t == Ty::Str { "7".to_string() } else { "\"wrong\"".to_string() };
        let classes: Vec<usize> = self.foreign_plain_classes().into_iter().filter(|&c| !self.classes[c].args.is_empty() && !self.classes[c].args[0].3).collect();
        let funs: Vec<usize> = (0..self.funs.len())
            .filter(|&i| {
                self.fun_file.get(i).map(|f| *f != self.cur_file && self.visible_files.contains(f)).unwrap_or(false)
                    && !self.funs[i].params.is_empty()
                    && !matches!(self.funs[i].params[0].1, Ty::Class(_))
                    && self.funs[i].raises.is_empty()
            })
            .collect();
        if !funs.is_empty() && (classes.is_empty() || self.rng.chance(1, 2)) {
            let f = self.funs[*self.rng.pick(&funs)].clone();
            let mut args = vec![wrong(&f.params[0].1)];
            for (_, t, d) in f.params.iter().skip(1) {
                if *d {
                    break;
                }
                args.push(self.lit(t));
            }
            return Some(format!("def {tag}xbad := {}({})\n", f.name, args.join(", ")));
        }
        if !classes.is_empty() {
            let c = self.classes[*self.rng.pick(&classes)].clone();
            let mut args = vec![wrong(&c.args[0].1)];
            for (_, t, _, d) in c.args.iter().skip(1) {
                if *d {
                    break;
                }
                args.push(self.lit(t));
            }
            return Some(format!("def {tag}xbad := {}({})\n", c.name, args.join(", ")));
        }
        None
    }

    pub fn call_line(&mut self, fi: usize) -> String {
        let f = self.funs[fi].clone();
        let v = self.fresh("call");
        let args: Vec<String> = f.params.iter().map(|(_, t, _)| self.lit(t)).collect();
        format!("def {v} := {}({})\n", f.name, args.join(", "))
    }
}

fn capitalise(s: &str) -> String {
    let mut c = s.chars();
    match c.next() {
        Some(f) => f.to_uppercase().collect::<String>() + c.as_str(),
        None => String::new(),
    }
}

pub fn generate(rng: &mut Rng, fenced: &BTreeSet<String>) -> Vec<SrcFile> {
    let mut g = Gen::new(rng, fenced, "");
    g.program();
    vec![SrcFile { path: "a.mamba".into(), text: g.out }]
}
