//! KNOWN_FINDINGS.txt: committed, read-only at run time.
//!
//! finding: property=<id> id=<Fn> witness=findings/<file>.json class=<class> features=<a,b> what=<text>
//! fixed: property=<id> <commit> <what failed> id=<Fn> witness=findings/<file>.json

use std::collections::BTreeSet;

#[derive(Clone, Debug, Default)]
pub struct Entry {
    pub open: bool,
    pub property: String,
    pub id: String,
    pub witness: String,
    pub class: String,
    pub features: Vec<String>,
    /// signature of violations that are this finding (C13): comma-separated conditions
    /// fired:<call>:<kind> (every non-benign fault that fired in the step is this one),
    /// outcome:<step outcome>, class:<class prefix>
    pub sig: String,
    pub what: String,
}

pub fn load(verif_dir: &str) -> Vec<Entry> {
    let path = format!("{verif_dir}/KNOWN_FINDINGS.txt");
    let text = std::fs::read_to_string(&path).unwrap_or_default();
    let mut out = vec![];
    for line in text.lines() {
        let line = line.trim();
        if line.is_empty() || line.starts_with('#') {
            continue;
        }
        let (open, rest) = if let Some(r) = line.strip_prefix("finding:") {
            (true, r)
        } else if let Some(r) = line.strip_prefix("fixed:") {
            (false, r)
        } else {
            continue;
        };
        let mut e = Entry { open, ..Default::default() };
        let (head, what) = match rest.find(" what=") {
            Some(i) => (&rest[..i], rest[i + 6..].to_string()),
            None => (rest, String::new()),
        };
        let mut free = vec![];
        for tok in head.split_whitespace() {
            if let Some((k, v)) = tok.split_once('=') {
                match k {
                    "property" => e.property = v.to_string(),
                    "id" => e.id = v.to_string(),
                    "witness" => e.witness = v.to_string(),
                    "class" => e.class = v.to_string(),
                    "sig" => e.sig = v.to_string(),
                    "features" => e.features = v.split(',').filter(|s| !s.is_empty() && *s != "-").map(|s| s.to_string()).collect(),
                    _ => free.push(tok.to_string()),
                }
            } else {
                free.push(tok.to_string());
            }
        }
        e.what = if what.is_empty() { free.join(" ") } else { what };
        out.push(e);
    }
    out
}

/// Features fenced off in the random part of a check: those of *open* findings of `property`.
pub fn fenced(entries: &[Entry], property: &str) -> BTreeSet<String> {
    entries
        .iter()
        .filter(|e| e.open && e.property == property)
        .flat_map(|e| e.features.iter().cloned())
        .collect()
}

impl Entry {
    pub fn sig_matches(&self, class: &str, fired: &[String], outcome: &str) -> bool {
        if self.sig.is_empty() {
            return false;
        }
        for cond in self.sig.split(',') {
            let ok = if let Some(f) = cond.strip_prefix("fired:") {
                !fired.is_empty() && fired.iter().all(|x| x == f)
            } else if let Some(o) = cond.strip_prefix("outcome:") {
                outcome == o
            } else if let Some(c) = cond.strip_prefix("class:") {
                c.split('|').any(|p| class.starts_with(p))
            } else {
                false
            };
            if !ok {
                return false;
            }
        }
        true
    }
}
