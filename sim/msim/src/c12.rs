//! C12 — determinism: verdict and emitted bytes depend on the input alone.
//!
//! Driver side only: generates scenarios from the seed, runs them in executor processes,
//! compares every job with the canonical run of the same program, minimises, replays.

use crate::corpus::{self, Sample};
use crate::findings;
use crate::gen;
use crate::pool::{par_map, run_exec, workers};
use crate::scen::*;
use crate::simlibc::PlanItem;
use crate::util::{digest, Rng};
use serde_json::json;
use std::collections::{BTreeMap, BTreeSet};
use std::time::Instant;

pub const CANON_CLOCK: i64 = 1_700_000_000;
pub const CANON_PID: i32 = 4242;

pub fn program_key(p: &Program) -> String {
    let mut v = vec![];
    for f in &p.files {
        v.extend_from_slice(f.path.as_bytes());
        v.push(0);
        v.extend_from_slice(f.text.as_bytes());
        v.push(0);
    }
    v.push(p.annotate as u8);
    v.extend_from_slice(p.path_mode.as_bytes());
    digest(&v)
}

fn canonical_scenario(p: &Program, variant: u32) -> C12Scenario {
    let mut env = BTreeMap::new();
    let mut cwd = "/".to_string();
    if variant == 1 {
        env.insert("LANG".to_string(), "tr_TR.UTF-8".to_string());
        env.insert("TZ".to_string(), "Pacific/Chatham".to_string());
        env.insert("USER".to_string(), "nobody".to_string());
        env.insert("MSIM_PADDING".to_string(), "x".repeat(3000));
        cwd = "/usr/lib".to_string();
    }
    C12Scenario {
        property: "C12".into(),
        seed: 0,
        index: 0,
        programs: vec![p.clone()],
        threads: vec![ThreadCfg { hash_seed: 0, readdir_seed: 0 }],
        env,
        cwd,
        clock: CANON_CLOCK,
        clock_step_ns: 0,
        cpus: 0,
        tmp_missing: false,
        env_fuzz: 0,
        pid: CANON_PID,
        schedule: vec![Round { jobs: vec![Job { thread: 0, program: 0, measured: true, perturb: vec![] }], interleave_seed: 0, switch_permille: 0 }],
        expect: None,
    }
}

/// Run one scenario in an executor.  When the executor dies, re-run job by job (each alone,
/// same thread configuration) so that the death is attributed to a job.
static PRIVATE_BASE: std::sync::OnceLock<String> = std::sync::OnceLock::new();
static PRIVATE_SEQ: std::sync::atomic::AtomicU64 = std::sync::atomic::AtomicU64::new(0);

/// Remove the per-driver directory that holds the executors' private temp/home directories.
pub fn cleanup_private() {
    if let Some(b) = PRIVATE_BASE.get() {
        let _ = std::fs::remove_dir_all(b);
    }
}

pub fn run_scenario(sc: &C12Scenario) -> JobsResult {
    let input = serde_json::to_string(sc).unwrap();
    // Every executor gets its own empty temp / home / cache directory: state that code under
    // test might keep on disk (a cache) is then local to the scenario, where earlier jobs of
    // the same process — under the scenario's control — are the only ones that can have
    // written it, and concurrently running executors cannot see each other.
    let base = PRIVATE_BASE.get_or_init(|| crate::pool::scratch_base("c12priv"));
    let n = PRIVATE_SEQ.fetch_add(1, std::sync::atomic::Ordering::SeqCst);
    let private = format!("{base}/x{n}");
    let _ = std::fs::create_dir_all(format!("{private}/tmp"));
    let _ = std::fs::create_dir_all(format!("{private}/home/.cache"));
    // (sometimes the directory the environment names does not exist: nothing the library
    // promises may depend on it)
    let tmp = if sc.tmp_missing { format!("{private}/no-such-tmp") } else { format!("{private}/tmp") };
    let home = format!("{private}/home");
    let cache = format!("{private}/home/.cache");
    let extra: Vec<(&str, &str)> = vec![("TMPDIR", &tmp), ("TMP", &tmp), ("TEMP", &tmp), ("HOME", &home), ("XDG_CACHE_HOME", &cache), ("MSIM_PRIVATE", &private)];
    let out = run_exec("exec-jobs", &input, &sc.env, &sc.cwd, &extra);
    let _ = std::fs::remove_dir_all(&private);
    if out.code == Some(0) {
        if let Ok(r) = serde_json::from_str::<JobsResult>(&out.stdout) {
            return r;
        }
    }
    let total: usize = sc.schedule.iter().map(|r| r.jobs.len()).sum();
    let how = match (out.code, out.signal) {
        (_, Some(s)) => format!("abort:signal{s}"),
        (Some(c), _) => format!("abort:exit{c}"),
        _ => "abort:?".to_string(),
    };
    // (a long schedule is not re-run job by job — a marathon would cost hundreds of process
    // starts per attempt of the minimiser: the death is attributed to every job of it)
    if total <= 1 || total > 40 {
        let mut jobs = vec![];
        for (ri, r) in sc.schedule.iter().enumerate() {
            for j in &r.jobs {
                jobs.push(JobResult { round: ri, thread: j.thread, program: j.program, measured: j.measured, verdict: how.clone(), panic_msg: out.stderr.chars().take(300).collect(), ..Default::default() });
            }
        }
        return JobsResult { jobs, ..Default::default() };
    }
    let mut jobs = vec![];
    for (ri, r) in sc.schedule.iter().enumerate() {
        for j in &r.jobs {
            let mut one = sc.clone();
            one.schedule = vec![Round { jobs: vec![j.clone()], interleave_seed: 0, switch_permille: 0 }];
            let mut res = run_scenario(&one);
            for mut jr in res.jobs.drain(..) {
                jr.round = ri;
                jobs.push(jr);
            }
        }
    }
    JobsResult { jobs, ..Default::default() }
}

#[derive(Clone, Debug)]
pub struct Violation {
    pub class: String,
    pub job: usize,
    pub program: usize,
    pub detail: String,
}

fn excerpt(a: &str, b: &str) -> String {
    let al: Vec<&str> = a.lines().collect();
    let bl: Vec<&str> = b.lines().collect();
    for i in 0..al.len().max(bl.len()) {
        let x = al.get(i).copied().unwrap_or("<eof>");
        let y = bl.get(i).copied().unwrap_or("<eof>");
        if x != y {
            return format!("line {}: - {} | + {}", i + 1, x, y);
        }
    }
    "differs in line terminators only".to_string()
}

pub fn compare(reference: &JobResult, got: &JobResult) -> Option<(String, String)> {
    if reference.verdict != got.verdict {
        let abnormal = |v: &str| v == "panic" || v.starts_with("abort");
        let class = if abnormal(&reference.verdict) || abnormal(&got.verdict) { "panic_flip" } else { "verdict_flip" };
        let why = |r: &JobResult| match r.verdict.as_str() {
            "err" => format!("err({})", r.diags.first().map(|d| d.lines().next().unwrap_or("").to_string()).unwrap_or_default()),
            "panic" => format!("panic({})", r.panic_msg.lines().next().unwrap_or("")),
            v => v.to_string(),
        };
        return Some((class.to_string(), format!("canonical={} other={}", why(reference), why(got))));
    }
    if reference.verdict == "ok" && reference.outputs != got.outputs {
        let mut d = String::new();
        for (i, (a, b)) in reference.outputs.iter().zip(got.outputs.iter()).enumerate() {
            if a != b {
                d = format!("file #{i}: {}", excerpt(a, b));
                break;
            }
        }
        if d.is_empty() {
            d = format!("{} vs {} output files", reference.outputs.len(), got.outputs.len());
        }
        return Some(("bytes_differ".to_string(), d));
    }
    None
}

pub struct RefCache {
    pub map: BTreeMap<String, JobResult>,
}

impl RefCache {
    pub fn new() -> RefCache {
        RefCache { map: BTreeMap::new() }
    }
    pub fn get_or_run(&mut self, p: &Program) -> JobResult {
        let k = program_key(p);
        if let Some(r) = self.map.get(&k) {
            return r.clone();
        }
        let r = run_scenario(&canonical_scenario(p, 0)).jobs.pop().unwrap_or_default();
        self.map.insert(k, r.clone());
        r
    }
}

/// Run a scenario and compare every job with the canonical run of its program.
pub fn check_scenario(sc: &C12Scenario, refs: &mut RefCache) -> (JobsResult, Vec<Violation>) {
    let res = run_scenario(sc);
    let mut v = vec![];
    for (ji, jr) in res.jobs.iter().enumerate() {
        let p = &sc.programs[jr.program];
        let r = refs.get_or_run(p);
        if let Some((class, detail)) = compare(&r, jr) {
            v.push(Violation { class, job: ji, program: jr.program, detail });
        }
    }
    (res, v)
}

// ------------------------------------------------------------------------- generation

pub struct Tier {
    pub name: String,
    pub corpus_configs: usize,
    pub n_comp: usize,
    pub comp_configs: usize,
    pub n_gen: usize,
    pub gen_configs: usize,
    pub n_mut: usize,
}

fn envnum(name: &str, default: usize) -> usize {
    std::env::var(name).ok().and_then(|v| v.parse().ok()).unwrap_or(default)
}

pub fn tier(name: &str) -> Tier {
    if name == "thorough" {
        Tier {
            name: name.into(),
            corpus_configs: envnum("VERIF_C12_CORPUS_CONFIGS", 48),
            n_comp: envnum("VERIF_C12_NCOMP", 1000),
            comp_configs: envnum("VERIF_C12_COMP_CONFIGS", 16),
            n_gen: envnum("VERIF_C12_NGEN", 4000),
            gen_configs: envnum("VERIF_C12_GEN_CONFIGS", 16),
            n_mut: envnum("VERIF_C12_NMUT", 2500),
        }
    } else {
        Tier {
            name: "quick".into(),
            corpus_configs: envnum("VERIF_C12_CORPUS_CONFIGS", 6),
            n_comp: envnum("VERIF_C12_NCOMP", 120),
            comp_configs: envnum("VERIF_C12_COMP_CONFIGS", 5),
            n_gen: envnum("VERIF_C12_NGEN", 400),
            gen_configs: envnum("VERIF_C12_GEN_CONFIGS", 5),
            n_mut: envnum("VERIF_C12_NMUT", 250),
        }
    }
}

fn random_env(rng: &mut Rng) -> (BTreeMap<String, String>, String) {
    let mut env = BTreeMap::new();
    if rng.chance(1, 2) {
        env.insert("LANG".into(), rng.pick(&["C", "en_US.UTF-8", "tr_TR.UTF-8", "ja_JP.eucJP"]).to_string());
    }
    if rng.chance(1, 2) {
        env.insert("TZ".into(), rng.pick(&["UTC", "Pacific/Chatham", "America/St_Johns"]).to_string());
    }
    if rng.chance(1, 3) {
        env.insert("USER".into(), rng.pick(&["root", "nobody", "builder"]).to_string());
    }
    if rng.chance(1, 3) {
        env.insert("RUST_BACKTRACE".into(), rng.pick(&["0", "1", "full"]).to_string());
    }
    if rng.chance(1, 3) {
        // moves the initial stack and with it every address
        env.insert("MSIM_PADDING".into(), "p".repeat(rng.range(1, 5000) as usize));
    }
    if rng.chance(1, 4) {
        env.insert("RUST_LOG".into(), "trace".into());
    }
    let cwd = rng.pick(&["/", "/usr/lib", "/dev/shm", "/var"]).to_string();
    (env, cwd)
}

fn random_perturb(rng: &mut Rng) -> Vec<PlanItem> {
    let mut v = vec![];
    if rng.chance(1, 2) {
        return v;
    }
    for _ in 0..rng.range(1, 6) {
        match rng.below(3) {
            0 => v.push(PlanItem { call: "read_stub".into(), nth: rng.below(26) as u32, kind: "short".into(), arg: rng.range(1, 200) as i64 }),
            1 => v.push(PlanItem { call: "read_stub".into(), nth: rng.below(26) as u32, kind: "eintr".into(), arg: 0 }),
            _ => v.push(PlanItem { call: "open_stub".into(), nth: rng.below(13) as u32, kind: "eintr".into(), arg: 0 }),
        }
    }
    v
}

/// Every identifier of the generated form letters+digits (`v12`, `C3`, `Err14`, `cfn27`) gets
/// `tag` appended — everywhere, also inside string placeholders — so that the program is the
/// same up to names and all its names are new.
pub fn rename_numbered(text: &str, tag: &str) -> String {
    let b: Vec<char> = text.chars().collect();
    let mut out = String::with_capacity(text.len() + 64);
    let mut i = 0;
    while i < b.len() {
        let c = b[i];
        if c.is_ascii_alphabetic() || c == '_' {
            let st = i;
            while i < b.len() && (b[i].is_ascii_alphanumeric() || b[i] == '_') {
                i += 1;
            }
            let w: String = b[st..i].iter().collect();
            let letters = w.chars().take_while(|c| c.is_ascii_alphabetic()).count();
            let digits = w.chars().skip(letters).take_while(|c| c.is_ascii_digit()).count();
            out.push_str(&w);
            if letters > 0 && digits > 0 && letters + digits == w.len() {
                out.push_str(tag);
            }
        } else if c.is_ascii_digit() {
            // a number (or something starting with a digit): copy the whole token
            while i < b.len() && (b[i].is_ascii_alphanumeric() || b[i] == '_' || b[i] == '.') {
                out.push(b[i]);
                i += 1;
            }
        } else {
            out.push(c);
            i += 1;
        }
    }
    out
}

/// The program as it was one edit ago: one top-level one-line statement deleted, or a fresh
/// definition inserted before a top-level line — the history of a file that is transpiled
/// again after every change (watch mode).  `None` when the text has no such line.
fn edited(p: &Program, rng: &mut Rng) -> Option<Program> {
    let mut q = p.clone();
    let fi = rng.below(q.files.len().max(1) as u64) as usize;
    let f = q.files.get_mut(fi)?;
    if f.text.contains('\r') {
        return None;
    }
    let lines: Vec<&str> = f.text.lines().collect();
    // top-level lines that are whole statements (the next line is not indented)
    let tops: Vec<usize> = (0..lines.len())
        .filter(|&i| !lines[i].is_empty() && !lines[i].starts_with(' ') && !lines[i].starts_with('\t') && !lines[i].starts_with('#') && lines.get(i + 1).map(|n| !n.starts_with(' ') && !n.starts_with('\t')).unwrap_or(true))
        .collect();
    if tops.is_empty() {
        return None;
    }
    let k = *rng.pick(&tops);
    let mut out: Vec<String> = lines.iter().map(|l| l.to_string()).collect();
    if rng.chance(1, 2) && !lines[k].starts_with("from ") && !lines[k].starts_with("import ") {
        out.remove(k);
    } else {
        let at = if lines[k].starts_with("from ") || lines[k].starts_with("import ") { k + 1 } else { k };
        out.insert(at, format!("def zzed{} := 0", rng.below(90)));
    }
    f.text = out.join("\n") + "\n";
    q.label = format!("edit of {}", p.label);
    Some(q)
}

/// Build the non-canonical scenarios: the (program, configuration) evaluations are shuffled
/// and cut into batches; every batch is one process with 1–4 simulated threads; every job is
/// measured and at the same time is "earlier work" for the jobs after it.
pub fn build_scenarios(seed: u64, programs: &[Program], configs: &[usize], rng: &mut Rng, fenced: &BTreeSet<String>) -> Vec<C12Scenario> {
    // program index -> index of the program with the same files and the other annotate value
    let mut by_text: BTreeMap<String, Vec<usize>> = BTreeMap::new();
    for (i, p) in programs.iter().enumerate() {
        let mut q = p.clone();
        q.annotate = false;
        by_text.entry(program_key(&q)).or_default().push(i);
    }
    let mut twins: BTreeMap<usize, usize> = BTreeMap::new();
    for v in by_text.values() {
        if v.len() == 2 && configs[v[0]] > 0 && configs[v[1]] > 0 {
            twins.insert(v[0], v[1]);
            twins.insert(v[1], v[0]);
        }
    }
    let mut evals: Vec<usize> = vec![];
    for (pi, &k) in configs.iter().enumerate() {
        for _ in 0..k {
            evals.push(pi);
        }
    }
    rng.shuffle(&mut evals);
    let mut out = vec![];
    let mut i = 0;
    while i < evals.len() {
        let size = match rng.below(10) {
            0 | 1 => 1,
            2..=4 => rng.range(2, 4) as usize,
            _ => rng.range(5, 12) as usize,
        };
        let batch: Vec<usize> = evals[i..(i + size).min(evals.len())].to_vec();
        i += batch.len();
        let nthreads = if batch.len() == 1 { 1 } else { rng.range(1, 4) as usize };
        let threads: Vec<ThreadCfg> = (0..nthreads)
            .map(|_| ThreadCfg {
                hash_seed: if rng.chance(1, 4) { rng.range(1, 64) } else { rng.next() },
                readdir_seed: if rng.chance(1, 3) { 0 } else { rng.next() | 1 },
            })
            .collect();
        // local program table
        let mut local: Vec<usize> = vec![];
        let mut idx_of = BTreeMap::new();
        for &p in &batch {
            idx_of.entry(p).or_insert_with(|| {
                local.push(p);
                local.len() - 1
            });
        }
        let mut schedule = vec![];
        let mut extras: Vec<Program> = vec![];
        let mut k = 0;
        while k < batch.len() {
            let concurrent = nthreads >= 2 && batch.len() - k >= 2 && rng.chance(1, 3);
            // "twin" round: the same sources on two or three threads at once — with the other
            // annotate value when the pool has that program, else the very same job twice
            if concurrent && rng.chance(1, 3) {
                let p = batch[k];
                let twin = twins.get(&p).cloned().unwrap_or(p);
                let n = (rng.range(2, nthreads as u64) as usize).min(3);
                let mut ts: Vec<usize> = (0..nthreads).collect();
                rng.shuffle(&mut ts);
                let mut jobs = vec![];
                for q in 0..n {
                    let which = if q % 2 == 0 { p } else { twin };
                    let li = *idx_of.entry(which).or_insert_with(|| {
                        local.push(which);
                        local.len() - 1
                    });
                    jobs.push(Job { thread: ts[q], program: li, measured: true, perturb: random_perturb(rng) });
                }
                schedule.push(Round { jobs, interleave_seed: rng.next(), switch_permille: *rng.pick(&[20, 100, 300, 1000]) });
                k += 1;
                continue;
            }
            if concurrent {
                let n = (rng.range(2, nthreads as u64) as usize).min(batch.len() - k);
                let mut ts: Vec<usize> = (0..nthreads).collect();
                rng.shuffle(&mut ts);
                let jobs: Vec<Job> = (0..n)
                    .map(|q| Job { thread: ts[q], program: idx_of[&batch[k + q]], measured: true, perturb: random_perturb(rng) })
                    .collect();
                schedule.push(Round { jobs, interleave_seed: rng.next(), switch_permille: *rng.pick(&[20, 100, 300, 1000]) });
                k += n;
            } else {
                let t = rng.below(nthreads as u64) as usize;
                // "edit": the same thread has just transpiled the file as it was one edit ago
                if rng.chance(1, 5) {
                    if let Some(e) = edited(&programs[batch[k]], rng) {
                        let builtins = corpus::builtin_names();
                        let feats = corpus::features_of(&e.files, &builtins);
                        if !feats.iter().any(|f| fenced.contains(f)) {
                            let mut e = e;
                            e.features = feats;
                            extras.push(e);
                            schedule.push(Round {
                                jobs: vec![Job { thread: t, program: usize::MAX - (extras.len() - 1), measured: true, perturb: vec![] }],
                                interleave_seed: 0,
                                switch_permille: 0,
                            });
                        }
                    }
                }
                schedule.push(Round {
                    jobs: vec![Job { thread: t, program: idx_of[&batch[k]], measured: true, perturb: random_perturb(rng) }],
                    interleave_seed: 0,
                    switch_permille: 0,
                });
                // "echo": the very same input again — at once on the same thread, or on another
                if rng.chance(1, 5) {
                    let t2 = if rng.chance(3, 4) { t } else { rng.below(nthreads as u64) as usize };
                    schedule.push(Round {
                        jobs: vec![Job { thread: t2, program: idx_of[&batch[k]], measured: true, perturb: random_perturb(rng) }],
                        interleave_seed: 0,
                        switch_permille: 0,
                    });
                }
                k += 1;
            }
        }
        // the edited programs go behind the pool programs of this scenario
        for r in schedule.iter_mut() {
            for j in r.jobs.iter_mut() {
                if j.program > usize::MAX / 2 {
                    j.program = local.len() + (usize::MAX - j.program);
                }
            }
        }
        let (env, cwd) = random_env(rng);
        out.push(C12Scenario {
            property: "C12".into(),
            seed,
            index: out.len() as u64,
            programs: local.iter().map(|&p| programs[p].clone()).chain(extras.into_iter()).collect(),
            threads,
            env,
            cwd,
            clock: if rng.chance(1, 2) { CANON_CLOCK } else { rng.range(1, 4_000_000_000) as i64 },
            // how fast simulated time passes per clock reading, how many CPUs there seem to be
            clock_step_ns: *rng.pick(&[0i64, 0, 1_000, 1_000_000, 40_000_000, 1_000_000_000, 3_600_000_000_000]),
            cpus: *rng.pick(&[0u32, 0, 1, 2, 3, 16, 64]),
            tmp_missing: rng.chance(1, 8),
            env_fuzz: if rng.chance(1, 3) { rng.next() | 1 } else { 0 },
            pid: if rng.chance(1, 2) { CANON_PID } else { rng.range(2, 4_000_000) as i32 },
            schedule,
            expect: None,
        });
    }
    out
}

// ------------------------------------------------------------------------- minimiser

fn job_count(sc: &C12Scenario) -> usize {
    sc.schedule.iter().map(|r| r.jobs.len()).sum()
}

/// Drop programs that no job refers to and renumber.
fn compact(sc: &mut C12Scenario) {
    let mut used = BTreeSet::new();
    let mut tused = BTreeSet::new();
    for r in &sc.schedule {
        for j in &r.jobs {
            used.insert(j.program);
            tused.insert(j.thread);
        }
    }
    let pmap: BTreeMap<usize, usize> = used.iter().enumerate().map(|(n, &o)| (o, n)).collect();
    let tmap: BTreeMap<usize, usize> = tused.iter().enumerate().map(|(n, &o)| (o, n)).collect();
    sc.programs = used.iter().map(|&o| sc.programs[o].clone()).collect();
    sc.threads = tused.iter().map(|&o| sc.threads[o].clone()).collect();
    for r in sc.schedule.iter_mut() {
        for j in r.jobs.iter_mut() {
            j.program = pmap[&j.program];
            j.thread = tmap[&j.thread];
        }
    }
    sc.schedule.retain(|r| !r.jobs.is_empty());
}

fn fails_same(sc: &C12Scenario, class: &str, refs: &mut RefCache) -> bool {
    if job_count(sc) == 0 {
        return false;
    }
    let (_, v) = check_scenario(sc, refs);
    v.iter().any(|x| x.class == class)
}

pub fn minimise(sc: &C12Scenario, viol: &Violation, refs: &mut RefCache, budget: &mut usize) -> C12Scenario {
    let class = viol.class.clone();
    let mut best = sc.clone();
    prefill(refs, sc);
    // shrinking stops after a number of attempts or after a wall-clock allowance, whichever
    // comes first (one attempt on a marathon re-runs hundreds of jobs)
    let t0 = Instant::now();
    let allowance = std::time::Duration::from_secs(envnum("VERIF_MINIMISE_S", 240) as u64);
    let mut attempt = |cand: C12Scenario, best: &mut C12Scenario, refs: &mut RefCache, budget: &mut usize| -> bool {
        if *budget == 0 || t0.elapsed() > allowance {
            return false;
        }
        *budget -= 1;
        let mut c = cand;
        compact(&mut c);
        if fails_same(&c, &class, refs) {
            *best = c;
            true
        } else {
            false
        }
    };
    // 1. cut everything after the failing job
    {
        let mut c = best.clone();
        let mut seen = 0;
        let mut cut_round = c.schedule.len();
        for (ri, r) in c.schedule.iter().enumerate() {
            if viol.job < seen + r.jobs.len() {
                cut_round = ri + 1;
                break;
            }
            seen += r.jobs.len();
        }
        c.schedule.truncate(cut_round);
        attempt(c, &mut best, refs, budget);
    }
    // 2. the failing job alone
    {
        let mut flat: Vec<(usize, usize)> = vec![];
        for (ri, r) in best.schedule.iter().enumerate() {
            for ji in 0..r.jobs.len() {
                flat.push((ri, ji));
            }
        }
        if let Some(&(ri, ji)) = flat.get(viol.job.min(flat.len().saturating_sub(1))) {
            let mut c = best.clone();
            let j = c.schedule[ri].jobs[ji].clone();
            c.schedule = vec![Round { jobs: vec![j], interleave_seed: 0, switch_permille: 0 }];
            attempt(c, &mut best, refs, budget);
        }
    }
    // 3. drop earlier jobs one at a time, latest first
    let mut progress = true;
    while progress && job_count(&best) > 1 {
        progress = false;
        let rounds = best.schedule.len();
        'outer: for ri in (0..rounds).rev() {
            for ji in (0..best.schedule[ri].jobs.len()).rev() {
                let mut c = best.clone();
                c.schedule[ri].jobs.remove(ji);
                if attempt(c, &mut best, refs, budget) {
                    progress = true;
                    break 'outer;
                }
            }
        }
    }
    // 4. ambient dimensions back to canonical, one by one
    for step in 0..7 {
        let mut c = best.clone();
        match step {
            0 => {
                c.env.clear();
                c.env_fuzz = 0;
            }
            1 => c.cwd = "/".into(),
            2 => {
                c.clock = CANON_CLOCK;
                c.clock_step_ns = 0;
                c.cpus = 0;
                c.tmp_missing = false;
            }
            3 => c.pid = CANON_PID,
            4 => c.threads.iter_mut().for_each(|t| t.readdir_seed = 0),
            5 => c.schedule.iter_mut().for_each(|r| r.jobs.iter_mut().for_each(|j| j.perturb.clear())),
            _ => c.schedule.iter_mut().for_each(|r| {
                r.switch_permille = 0;
                r.interleave_seed = 0
            }),
        }
        if c != best {
            attempt(c, &mut best, refs, budget);
        }
    }
    // 5. hash seeds: back to canonical, else the smallest that still fails
    for t in 0..best.threads.len() {
        let mut done = false;
        for s in 0..=24u64 {
            if best.threads[t].hash_seed == s {
                break;
            }
            let mut c = best.clone();
            c.threads[t].hash_seed = s;
            if attempt(c, &mut best, refs, budget) {
                done = true;
                break;
            }
        }
        let _ = done;
    }
    // 6. program text: drop files, then lines (chunks halving).  Removing text shifts the
    //    sequence of hash keys std hands out (k0 is incremented per map), so a reduced
    //    program may fail under other seeds than the original: when the scenario is a single
    //    job, every candidate is tried under a dozen hash seeds in one executor.
    let attempt_text = |cand: C12Scenario, best: &mut C12Scenario, refs: &mut RefCache, budget: &mut usize| -> bool {
        if *budget == 0 || t0.elapsed() > allowance {
            return false;
        }
        if job_count(&cand) != 1 || cand.threads.len() != 1 {
            *budget -= 1;
            let mut c = cand;
            compact(&mut c);
            if fails_same(&c, &class, refs) {
                *best = c;
                return true;
            }
            return false;
        }
        *budget -= 1;
        let base = cand.threads[0].clone();
        let job = cand.schedule[0].jobs[0].clone();
        let mut multi = cand.clone();
        multi.threads = vec![base.clone()];
        for s in 1..=11u64 {
            if s != base.hash_seed {
                multi.threads.push(ThreadCfg { hash_seed: s, readdir_seed: base.readdir_seed });
            }
        }
        multi.schedule = (0..multi.threads.len())
            .map(|t| Round { jobs: vec![Job { thread: t, ..job.clone() }], interleave_seed: 0, switch_permille: 0 })
            .collect();
        let (res, v) = check_scenario(&multi, refs);
        if let Some(x) = v.iter().find(|x| x.class == class) {
            let t = res.jobs[x.job].thread;
            let mut c = cand.clone();
            c.threads = vec![multi.threads[t].clone()];
            // confirm as a single job (fresh thread, no earlier jobs)
            if fails_same(&c, &class, refs) {
                *best = c;
                return true;
            }
        }
        false
    };
    for pi in 0..best.programs.len() {
        let mut fi = 0;
        while best.programs[pi].files.len() > 1 && fi < best.programs[pi].files.len() {
            let mut c = best.clone();
            c.programs[pi].files.remove(fi);
            if !attempt_text(c, &mut best, refs, budget) {
                fi += 1;
            }
        }
        for fi in 0..best.programs[pi].files.len() {
            let mut chunk = best.programs[pi].files[fi].text.lines().count() / 2;
            while chunk >= 1 {
                let mut start = 0;
                loop {
                    let lines: Vec<String> = best.programs[pi].files[fi].text.lines().map(|s| s.to_string()).collect();
                    if start >= lines.len() {
                        break;
                    }
                    let end = (start + chunk).min(lines.len());
                    let mut kept = lines[..start].to_vec();
                    kept.extend_from_slice(&lines[end..]);
                    let mut c = best.clone();
                    c.programs[pi].files[fi].text = kept.join("\n") + "\n";
                    if !attempt_text(c, &mut best, refs, budget) {
                        start = end;
                    }
                    if *budget == 0 {
                        break;
                    }
                }
                chunk /= 2;
            }
        }
        if best.programs[pi].annotate {
            let mut c = best.clone();
            c.programs[pi].annotate = false;
            attempt_text(c, &mut best, refs, budget);
        }
    }
    best
}

/// Which dimensions of a (minimised) scenario differ from the canonical configuration.
pub fn dims(sc: &C12Scenario) -> Vec<String> {
    let mut d = vec![];
    if sc.threads.iter().any(|t| t.hash_seed != 0) {
        d.push("hash_seed".to_string());
    }
    if sc.threads.iter().any(|t| t.readdir_seed != 0) {
        d.push("stub_dir_order".to_string());
    }
    if job_count(sc) > 1 {
        d.push("earlier_jobs".to_string());
    }
    if sc.threads.len() > 1 {
        d.push("threads".to_string());
    }
    if sc.schedule.iter().any(|r| r.switch_permille > 0 && r.jobs.len() > 1) {
        d.push("interleaving".to_string());
    }
    if sc.schedule.iter().any(|r| r.jobs.iter().any(|j| !j.perturb.is_empty())) {
        d.push("io_perturbation".to_string());
    }
    if sc.clock != CANON_CLOCK || sc.clock_step_ns != 0 {
        d.push("clock".to_string());
    }
    if sc.cpus != 0 {
        d.push("cpus".to_string());
    }
    if sc.tmp_missing {
        d.push("tmpdir".to_string());
    }
    if sc.pid != CANON_PID {
        d.push("pid".to_string());
    }
    if !sc.env.is_empty() || sc.env_fuzz != 0 {
        d.push("env".to_string());
    }
    if sc.cwd != "/" {
        d.push("cwd".to_string());
    }
    d
}

fn final_class(class: &str, sc: &C12Scenario) -> String {
    let d = dims(sc);
    if !d.is_empty() && d.iter().all(|x| ["clock", "pid", "env", "cwd", "cpus"].contains(&x.as_str())) {
        "ambient_read".to_string()
    } else {
        class.to_string()
    }
}

// ------------------------------------------------------------------------- replay

/// Re-run a replay/witness file.  Returns Some(detail) when the expected class reproduces.
/// Canonical runs of all programs of a scenario that the cache does not hold yet, in parallel
/// (each in its own fresh process): a marathon has hundreds of programs.
pub fn prefill(refs: &mut RefCache, sc: &C12Scenario) {
    let mut seen: BTreeSet<String> = refs.map.keys().cloned().collect();
    let missing: Vec<Program> = sc.programs.iter().filter(|p| seen.insert(program_key(p))).cloned().collect();
    if missing.len() < 2 {
        return;
    }
    let rs: Vec<JobResult> = par_map(&missing, workers(), |_, p| run_scenario(&canonical_scenario(p, 0)).jobs.pop().unwrap_or_default());
    for (p, r) in missing.iter().zip(rs.into_iter()) {
        refs.map.insert(program_key(p), r);
    }
}

pub fn replay(sc: &C12Scenario) -> Option<String> {
    let mut refs = RefCache::new();
    prefill(&mut refs, sc);
    let (_, v) = check_scenario(sc, &mut refs);
    let want = sc.expect.as_ref().map(|e| e.class.clone()).unwrap_or_default();
    for x in &v {
        if want.is_empty() || final_class(&x.class, sc) == want || x.class == want {
            return Some(format!("{}: {}", final_class(&x.class, sc), x.detail));
        }
    }
    None
}

// ------------------------------------------------------------------------- the check

pub fn scan_shared_state() -> (usize, Vec<String>) {
    // source scan of the working tree for constructs that could carry state between calls or
    // threads; reported in the evidence, never an alarm by itself
    let mut hits = vec![];
    fn walk(dir: &std::path::Path, hits: &mut Vec<String>) {
        let mut es: Vec<_> = match std::fs::read_dir(dir) {
            Ok(r) => r.flatten().map(|e| e.path()).collect(),
            Err(_) => return,
        };
        es.sort();
        for p in es {
            if p.is_dir() {
                walk(&p, hits);
            } else if p.extension().map(|e| e == "rs").unwrap_or(false) {
                if let Ok(t) = std::fs::read_to_string(&p) {
                    for (n, line) in t.lines().enumerate() {
                        let l = line.trim();
                        if l.starts_with("//") {
                            continue;
                        }
                        let pats = ["static mut ", "thread_local!", "lazy_static", "OnceLock", "OnceCell", "Mutex<", "RwLock<", "Atomic", "UnsafeCell", "unsafe {", "unsafe fn", "unsafe impl", "std::thread", "std::time", "SystemTime", "Instant::", "std::env::", "process::id"];
                        let is_static = (l.starts_with("static ") || l.starts_with("pub static ")) && !l.contains("&str") && !l.contains("&'static str");
                        if is_static || pats.iter().any(|p| l.contains(p)) {
                            hits.push(format!("{}:{}: {}", p.display(), n + 1, l.chars().take(100).collect::<String>()));
                        }
                    }
                }
            }
        }
    }
    walk(&std::path::PathBuf::from(corpus::repo_dir()).join("src"), &mut hits);
    // main.rs reads the cwd by design
    hits.retain(|h| !h.contains("/src/main.rs:"));
    (hits.len(), hits)
}

pub struct Outcome {
    pub exit: i32,
}

pub fn run_check(tier_name: &str, seed: u64, verif_dir: &str) -> Outcome {
    let t0 = Instant::now();
    let tier = tier(tier_name);
    let entries = findings::load(verif_dir);
    let fenced = findings::fenced(&entries, "C12");
    let builtins = corpus::builtin_names();
    let mut exit = 0;
    let mut known_reproduced = vec![];

    // ---- witnesses of known findings first
    for e in entries.iter().filter(|e| e.property == "C12" && !e.witness.is_empty()) {
        let path = format!("{verif_dir}/{}", e.witness);
        let text = match std::fs::read_to_string(&path) {
            Ok(t) => t,
            Err(err) => {
                println!("HARNESS-ERROR cannot read witness {path}: {err}");
                return Outcome { exit: 2 };
            }
        };
        let sc: C12Scenario = match serde_json::from_str(&text) {
            Ok(s) => s,
            Err(err) => {
                println!("HARNESS-ERROR bad witness {path}: {err}");
                return Outcome { exit: 2 };
            }
        };
        let rep = replay(&sc);
        match (e.open, rep) {
            (true, Some(d)) => {
                println!("KNOWN-FINDING: property=C12 {} {} [{}]", e.id, e.what, d);
                known_reproduced.push(e.id.clone());
            }
            (true, None) => {
                println!("note: witness of open finding {} no longer reproduces (fixed?)", e.id);
            }
            (false, Some(d)) => {
                println!("fixed finding {} has returned: {}", e.id, d);
                println!("VIOLATION property=C12 replay={path}");
                exit = 1;
            }
            (false, None) => {}
        }
    }

    // ---- program pool
    let samples: Vec<Sample> = corpus::load_samples();
    let mut rng = Rng::new(seed);
    let mut programs: Vec<Program> = vec![];
    let mut configs: Vec<usize> = vec![];
    let mut kinds: Vec<&'static str> = vec![];
    for s in &samples {
        for annotate in [false, true] {
            let mut p = corpus::single_program(s, annotate);
            p.features = corpus::features_of(&p.files, &builtins);
            programs.push(p);
            configs.push(tier.corpus_configs);
            kinds.push("corpus");
        }
    }
    let mut crng = rng.fork(1);
    let mut fenced_skipped = 0usize;
    let mut made = 0;
    let mut tries = 0;
    while made < tier.n_comp && tries < tier.n_comp * 20 && !samples.is_empty() {
        tries += 1;
        let annotate = crng.chance(1, 2);
        let mut p = corpus::random_composition(&samples, &mut crng, annotate);
        // the API also allows sources without a display path, or with the same one
        if p.files.len() > 1 && crng.chance(1, 3) {
            p.path_mode = if crng.chance(1, 2) { "none".into() } else { "same".into() };
        }
        p.features = corpus::features_of(&p.files, &builtins);
        if p.features.iter().any(|f| fenced.contains(f)) {
            fenced_skipped += 1;
            continue;
        }
        programs.push(p);
        configs.push(tier.comp_configs);
        kinds.push("composition");
        made += 1;
    }
    // seeded small mutations of repository samples
    let mut mrng = rng.fork(4);
    made = 0;
    tries = 0;
    while made < tier.n_mut && tries < tier.n_mut * 20 && !samples.is_empty() {
        tries += 1;
        let si = mrng.below(samples.len() as u64) as usize;
        let annotate = mrng.chance(1, 2);
        let mut p = corpus::mutate_sample(&samples[si], &mut mrng, annotate);
        p.features = corpus::features_of(&p.files, &builtins);
        if p.features.iter().any(|f| fenced.contains(f)) {
            fenced_skipped += 1;
            continue;
        }
        programs.push(p);
        configs.push(tier.comp_configs);
        kinds.push("sample_mutant");
        made += 1;
    }
    let mut grng = rng.fork(2);
    made = 0;
    tries = 0;
    while made < tier.n_gen && tries < tier.n_gen * 20 {
        tries += 1;
        let annotate = grng.chance(1, 2);
        let files = gen::generate(&mut grng, &fenced);
        let mut p = Program { files, annotate, features: vec![], label: format!("generated#{tries}"), path_mode: String::new() };
        p.features = corpus::features_of(&p.files, &builtins);
        if p.features.iter().any(|f| fenced.contains(f)) {
            fenced_skipped += 1;
            continue;
        }
        programs.push(p);
        configs.push(tier.gen_configs);
        kinds.push("generated");
        made += 1;
    }
    // generated programs with a type error appended: long rejected programs (a checker that
    // leaks something on its error path leaks more the later the error comes)
    {
        let gen_idx: Vec<usize> = (0..programs.len()).filter(|&i| kinds[i] == "generated").collect();
        for (k, &i) in gen_idx.iter().enumerate() {
            if k % 6 == 0 {
                let mut p = programs[i].clone();
                for f in p.files.iter_mut() {
                    f.text.push_str("def zzbad9: Int := \"not an int\"\n");
                }
                p.label = format!("{} + type error", p.label);
                programs.push(p);
                configs.push(2);
                kinds.push("generated_faulted");
            }
        }
    }
    // One program in eight goes through `transpile_dir` (a private project directory per job)
    // instead of `mamba_to_python`: the same determinism is promised for the directory entry
    // point, and its reads and writes are scheduling points.  Decided by the text, so that the
    // two annotate twins of a program agree.
    for p in programs.iter_mut() {
        let mut paths: Vec<&str> = p.files.iter().map(|f| f.path.as_str()).collect();
        paths.sort();
        paths.dedup();
        let plain = p.files.iter().all(|f| f.path.ends_with(".mamba") && !f.path.starts_with('/') && !f.path.contains(".."));
        if p.path_mode.is_empty() && !p.files.is_empty() && paths.len() == p.files.len() && plain {
            let d = digest(p.files.iter().map(|f| f.text.as_str()).collect::<Vec<_>>().join("\u{0}").as_bytes());
            if u8::from_str_radix(&d[..2], 16).unwrap_or(1) % 8 == 0 {
                p.path_mode = "dir".into();
            }
        }
    }
    // corpus samples that carry a fenced feature are represented by the witness only
    let mut fenced_corpus = 0;
    for (i, p) in programs.iter().enumerate() {
        if kinds[i] == "corpus" && p.features.iter().any(|f| fenced.contains(f)) {
            fenced_corpus += 1;
        }
    }

    // ---- canonical references (two processes each, different ambient settings)
    let w = workers();
    let ref_results: Vec<(JobResult, JobResult)> = par_map(&programs, w, |_, p| {
        let a = run_scenario(&canonical_scenario(p, 0)).jobs.pop().unwrap_or_default();
        let b = run_scenario(&canonical_scenario(p, 1)).jobs.pop().unwrap_or_default();
        (a, b)
    });
    let mut refs = RefCache::new();
    let mut violations: Vec<(usize, C12Scenario, Violation)> = vec![];
    for (i, (a, b)) in ref_results.iter().enumerate() {
        refs.map.insert(program_key(&programs[i]), a.clone());
        if let Some((_, detail)) = compare(a, b) {
            if programs[i].features.iter().any(|f| fenced.contains(f)) {
                continue;
            }
            let mut sc = canonical_scenario(&programs[i], 1);
            sc.seed = seed;
            violations.push((0, sc, Violation { class: "cross_process_differ".into(), job: 0, program: 0, detail }));
        }
    }

    // ---- the seeded scenarios
    let edited_programs;
    let active_configs: Vec<usize> = configs
        .iter()
        .enumerate()
        .map(|(i, &k)| if programs[i].features.iter().any(|f| fenced.contains(f)) { 0 } else { k })
        .collect();
    let scenarios = build_scenarios(seed, &programs, &active_configs, &mut rng.fork(3), &fenced);
    // "marathons": one long-lived thread that transpiles a long sequence of mostly REJECTED
    // programs — state that accumulates over many calls (a leaked counter, a growing table)
    // needs a long history to matter
    let mut scenarios = scenarios;
    {
        let mut mrng2 = rng.fork(5);
        let (n_marathons, len) = if tier.name == "thorough" { (24usize, 500usize) } else { (6usize, 160usize) };
        let n_marathons = envnum("VERIF_C12_MARATHONS", n_marathons);
        let len = envnum("VERIF_C12_MARATHON_LEN", len);
        let rejected: Vec<usize> = (0..programs.len()).filter(|&i| active_configs[i] > 0 && ref_results[i].0.verdict == "err").collect();
        let any: Vec<usize> = (0..programs.len()).filter(|&i| active_configs[i] > 0).collect();
        if !any.is_empty() {
            for _ in 0..n_marathons {
                let mut local: Vec<usize> = vec![];
                let mut idx_of: BTreeMap<usize, usize> = BTreeMap::new();
                let mut schedule = vec![];
                for _ in 0..len {
                    let p = if !rejected.is_empty() && mrng2.chance(7, 10) { *mrng2.pick(&rejected) } else { *mrng2.pick(&any) };
                    let li = *idx_of.entry(p).or_insert_with(|| {
                        local.push(p);
                        local.len() - 1
                    });
                    schedule.push(Round { jobs: vec![Job { thread: 0, program: li, measured: true, perturb: vec![] }], interleave_seed: 0, switch_permille: 0 });
                }
                scenarios.push(C12Scenario {
                    property: "C12".into(),
                    seed,
                    index: scenarios.len() as u64,
                    programs: local.iter().map(|&p| programs[p].clone()).collect(),
                    threads: vec![ThreadCfg { hash_seed: mrng2.next(), readdir_seed: 0 }],
                    env: BTreeMap::new(),
                    cwd: "/".into(),
                    clock: CANON_CLOCK,
                    clock_step_ns: 0,
                    cpus: 0,
                    tmp_missing: false,
                    env_fuzz: 0,
                    pid: CANON_PID,
                    schedule,
                    expect: None,
                });
            }
        }
    }
    // "vocabulary marathons": one thread transpiles a long sequence of ordinary (accepted)
    // programs in each of which every generated identifier is new — `v12` becomes `v12x3k41` —
    // so that the thread meets thousands of distinct names: a table with a capacity (an
    // interner, a bounded cache) that restarts or evicts in the middle of a check needs that
    let mut vocabulary_jobs = 0usize;
    {
        let mut vrng = rng.fork(7);
        let (n, len) = if tier.name == "thorough" { (12usize, 1000usize) } else { (5usize, 560usize) };
        let n = envnum("VERIF_C12_VOCAB_MARATHONS", n);
        let len = envnum("VERIF_C12_VOCAB_LEN", len);
        let pool: Vec<usize> = (0..programs.len())
            .filter(|&i| active_configs[i] > 0 && kinds[i] == "generated" && ref_results[i].0.verdict == "ok" && programs[i].path_mode.is_empty() && programs[i].files.iter().map(|f| f.text.len()).sum::<usize>() < 2500)
            .collect();
        if !pool.is_empty() {
            for m in 0..n {
                let mut progs = vec![];
                let mut schedule = vec![];
                for k in 0..len {
                    let mut p = programs[*vrng.pick(&pool)].clone();
                    let tag = format!("x{m}k{k}");
                    for f in p.files.iter_mut() {
                        f.text = rename_numbered(&f.text, &tag);
                    }
                    p.label = format!("{} renamed {tag}", p.label);
                    progs.push(p);
                    schedule.push(Round { jobs: vec![Job { thread: 0, program: k, measured: true, perturb: vec![] }], interleave_seed: 0, switch_permille: 0 });
                }
                vocabulary_jobs += len;
                scenarios.push(C12Scenario {
                    property: "C12".into(),
                    seed,
                    index: scenarios.len() as u64,
                    programs: progs,
                    threads: vec![ThreadCfg { hash_seed: vrng.next(), readdir_seed: 0 }],
                    env: BTreeMap::new(),
                    cwd: "/".into(),
                    clock: CANON_CLOCK,
                    clock_step_ns: 0,
                    cpus: 0,
                    tmp_missing: false,
                    env_fuzz: 0,
                    pid: CANON_PID,
                    schedule,
                    expect: None,
                });
            }
        }
    }
    // canonical references of the programs the scenarios made themselves (edited and renamed versions)
    {
        let mut seen: BTreeSet<String> = refs.map.keys().cloned().collect();
        let mut extra: Vec<Program> = vec![];
        for sc in &scenarios {
            for p in &sc.programs {
                if seen.insert(program_key(p)) {
                    extra.push(p.clone());
                }
            }
        }
        let rs: Vec<JobResult> = par_map(&extra, w, |_, p| run_scenario(&canonical_scenario(p, 0)).jobs.pop().unwrap_or_default());
        for (p, r) in extra.iter().zip(rs.into_iter()) {
            refs.map.insert(program_key(p), r);
        }
        edited_programs = extra.len();
    }
    // the marathons are single-threaded and long: they go first, so that they run beside the
    // many short scenarios instead of after them
    {
        let long = scenarios.iter().rev().take_while(|s| s.threads.len() == 1 && job_count(s) >= 100).count();
        scenarios.rotate_right(long);
    }
    let results: Vec<JobsResult> = par_map(&scenarios, w, |_, sc| run_scenario(sc));

    // ---- compare
    let mut evaluations = ref_results.len() * 2;
    let mut distinct: BTreeSet<(String, String)> = BTreeSet::new();
    let mut orders: BTreeSet<String> = BTreeSet::new();
    let mut verdicts: BTreeMap<String, usize> = BTreeMap::new();
    let mut perturb_fired: BTreeMap<String, usize> = BTreeMap::new();
    let (mut clock_calls, mut pid_calls, mut cwd_calls, mut foreign_writes, mut calls, mut switches, mut concurrent_jobs, mut with_history, mut unions) = (0u64, 0u64, 0u64, 0u64, 0u64, 0u64, 0u64, 0u64, 0u64);
    let mut interleavings: BTreeSet<String> = BTreeSet::new();
    let mut write_set_nonempty = 0u64;
    for (si, (sc, res)) in scenarios.iter().zip(results.iter()).enumerate() {
        switches += res.switches;
        if res.switches > 0 {
            interleavings.insert(res.interleaving_digest.clone());
        }
        for (ji, jr) in res.jobs.iter().enumerate() {
            evaluations += 1;
            let p = &sc.programs[jr.program];
            let key = program_key(p);
            let r = refs.map.get(&key).cloned().unwrap_or_default();
            *verdicts.entry(jr.verdict.clone()).or_insert(0) += 1;
            distinct.insert((key.clone(), jr.canary.clone()));
            orders.insert(jr.canary.clone());
            clock_calls += jr.clock_calls as u64;
            pid_calls += jr.pid_calls as u64;
            cwd_calls += jr.cwd_calls as u64;
            foreign_writes += jr.foreign_writes as u64;
            calls += jr.calls;
            if !jr.write_set.is_empty() {
                write_set_nonempty += 1;
            }
            if ji > 0 {
                with_history += 1;
            }
            if sc.schedule.get(jr.round).map(|r| r.jobs.len() > 1).unwrap_or(false) {
                concurrent_jobs += 1;
            }
            if jr.outputs.iter().any(|o| o.contains("Union[")) {
                unions += 1;
            }
            for f in &jr.fired {
                *perturb_fired.entry(format!("{}:{}", f.call, f.kind)).or_insert(0) += 1;
            }
            if let Some((class, detail)) = compare(&r, jr) {
                violations.push((si + 1, sc.clone(), Violation { class, job: ji, program: jr.program, detail }));
            }
        }
    }

    // ---- report the violation with the smallest scenario index, minimised and replayed
    let n_viol = violations.len();
    for (si, sc, v) in violations.iter().take(12) {
        let text: String = sc.programs[v.program].files.iter().map(|f| f.text.clone()).collect::<Vec<_>>().join("\n---\n");
        let interesting: Vec<&str> = text.lines().filter(|l| l.contains('{') || l.contains(" isa ")).take(6).collect();
        println!("  violation in scenario {si}: {} {} [{}] lines: {:?}", v.class, v.detail.chars().take(160).collect::<String>(), sc.programs[v.program].label, interesting);
    }
    let mut replay_path = String::new();
    // Candidates in scenario order; one that does not fail again in a fresh replay (code under
    // test that behaves differently from run to run in a way no seam owns) is skipped in favour
    // of the next — only when none reproduces is the run a harness error.
    let mut cands: Vec<(usize, C12Scenario, Violation)> = violations.clone();
    cands.sort_by_key(|(i, _, _)| *i);
    let mut not_reproduced: Vec<String> = vec![];
    for (si, sc, v) in cands.iter().take(8) {
        let mut budget = 400usize;
        let mut mrefs = RefCache::new();
        let mut min = if v.class == "cross_process_differ" { sc.clone() } else { minimise(sc, v, &mut mrefs, &mut budget) };
        let mut class = if v.class == "cross_process_differ" { v.class.clone() } else { final_class(&v.class, &min) };
        // replay in fresh processes
        let mut rep = if v.class == "cross_process_differ" {
            let a = run_scenario(&canonical_scenario(&min.programs[0], 0)).jobs.pop().unwrap_or_default();
            let b = run_scenario(&min).jobs.pop().unwrap_or_default();
            compare(&a, &b).map(|(_, d)| d)
        } else {
            min.expect = Some(Expect { class: class.clone(), detail: String::new() });
            replay(&min)
        };
        if rep.is_none() && v.class != "cross_process_differ" {
            // the minimised form is flaky: fall back to the scenario as found
            min = sc.clone();
            class = v.class.clone();
            min.expect = Some(Expect { class: class.clone(), detail: String::new() });
            rep = replay(&min);
        }
        match rep {
            Some(detail) => {
                min.expect = Some(Expect { class: class.clone(), detail: format!("{} | differs from canonical in: {:?}", detail, dims(&min)) });
                let dir = format!("{verif_dir}/replays");
                let _ = std::fs::create_dir_all(&dir);
                let body = serde_json::to_string_pretty(&min).unwrap();
                replay_path = format!("{dir}/C12-{seed}-{}.json", &digest(body.as_bytes())[..12]);
                std::fs::write(&replay_path, body).expect("write replay");
                println!("violation class={} {}", class, min.expect.as_ref().unwrap().detail);
                println!("VIOLATION property=C12 replay={replay_path}");
                exit = 1;
                break;
            }
            None => not_reproduced.push(format!("scenario {si} (class {class}) did not reproduce in a fresh replay")),
        }
    }
    for n in &not_reproduced {
        println!("note: nondeterministic-replay: {n}");
    }
    if exit != 1 && !cands.is_empty() {
        println!("HARNESS-ERROR nondeterministic-replay: {} violating scenario(s), none failed again when replayed", cands.len());
        return Outcome { exit: 2 };
    }

    // ---- evidence
    let (shared_n, shared_hits) = scan_shared_state();
    let wall = t0.elapsed().as_secs_f64();
    let sample_sc = scenarios.iter().find(|s| job_count(s) >= 3 && s.threads.len() >= 2).or(scenarios.first());
    let sample = sample_sc.map(|s| {
        let mut s = s.clone();
        for p in s.programs.iter_mut() {
            for f in p.files.iter_mut() {
                if f.text.len() > 400 {
                    f.text = format!("{}… [{} bytes]", f.text.chars().take(400).collect::<String>(), f.text.len());
                }
            }
        }
        serde_json::to_value(&s).unwrap()
    });
    let gen_accept = {
        let mut ok = 0;
        let mut n = 0;
        for (i, (a, _)) in ref_results.iter().enumerate() {
            if kinds[i] == "generated" {
                n += 1;
                if a.verdict == "ok" {
                    ok += 1;
                }
            }
        }
        (ok, n)
    };
    let comp_accept = {
        let mut ok = 0;
        let mut n = 0;
        for (i, (a, _)) in ref_results.iter().enumerate() {
            if kinds[i] == "composition" {
                n += 1;
                if a.verdict == "ok" {
                    ok += 1;
                }
            }
        }
        (ok, n)
    };
    let ev = json!({
        "property_id": "C12",
        "tier": tier.name,
        "seed": seed,
        "level": "exploration",
        "wall_s": wall,
        "violations": n_viol,
        "coverage": {
            "evaluations": evaluations,
            "distinct_nontrivial": distinct.len(),
            "rule": "one evaluation = one call of mamba::mamba_to_python (real code; for one program in eight mamba::transpile_dir on a private project directory) on a simulated thread whose hash keys, stub-directory order, clock, pid, earlier jobs, thread placement and (in concurrent rounds) interleaving at intercepted libc calls were decided by the seed; compared with the canonical run of the same program (keys 0, sorted directory, fresh process). distinct_nontrivial counts distinct (program digest, hash-order fingerprint of the job's thread at job start) pairs among the non-canonical jobs.",
            "samples": [sample],
            "scenarios": scenarios.len(),
            "programs": programs.len(),
            "program_pool": {"sample_mutants": kinds.iter().filter(|k| **k == "sample_mutant").count(), "corpus": samples.len() * 2, "compositions": kinds.iter().filter(|k| **k == "composition").count(), "generated": kinds.iter().filter(|k| **k == "generated").count()},
            "generated_accepted": format!("{}/{}", gen_accept.0, gen_accept.1),
            "compositions_accepted": format!("{}/{}", comp_accept.0, comp_accept.1),
            "fenced_by_open_findings": {"features": fenced.iter().collect::<Vec<_>>(), "generated_or_composed_skipped": fenced_skipped, "corpus_programs_skipped": fenced_corpus},
            "verdicts": verdicts,
            "distinct_hash_orders": orders.len(),
            "jobs_with_earlier_jobs_in_process": with_history,
            "jobs_in_vocabulary_marathons": vocabulary_jobs,
            "edited_versions_run_before_their_program_on_the_same_thread": edited_programs,
            "scenarios_with_environment_fuzzing": scenarios.iter().filter(|s| s.env_fuzz != 0).count(),
            "environment_variables_asked_for": results.iter().flat_map(|r| r.jobs.iter()).flat_map(|j| j.env_reads.iter().cloned()).collect::<BTreeSet<String>>(),
            "programs_run_through_transpile_dir": programs.iter().filter(|p| p.path_mode == "dir").count(),
            "jobs_repeating_an_earlier_job_of_their_thread": scenarios.iter().map(|sc| {
                let mut seen = BTreeSet::new();
                let mut n = 0u64;
                for r in &sc.schedule {
                    for j in &r.jobs {
                        if !seen.insert((j.thread, j.program)) {
                            n += 1;
                        }
                    }
                }
                n
            }).sum::<u64>(),
            "longest_history_of_one_thread": scenarios.iter().map(job_count).max().unwrap_or(0),
            "jobs_in_concurrent_rounds": concurrent_jobs,
            "interleaving_switches": switches,
            "scheduling_points_from_log_statements": results.iter().flat_map(|r| r.jobs.iter()).map(|j| j.log_points).sum::<u64>(),
            "threads_created_by_the_code_under_test": results.iter().map(|r| r.lib_threads).sum::<u64>(),
            "distinct_interleavings": interleavings.len(),
            "outputs_with_rendered_union": unions,
            "perturbations_fired": perturb_fired,
            "faults_fired": {},
            "logical_steps": calls,
            "simulated_time": "0 (nothing in the system waits on a clock); logical_steps counts intercepted libc calls",
            "cpu_count_calls": results.iter().flat_map(|r| r.jobs.iter()).map(|j| j.cpu_calls as u64).sum::<u64>(),
            "clock_calls": clock_calls, "pid_calls": pid_calls, "cwd_calls": cwd_calls, "foreign_writes": foreign_writes, "jobs_that_wrote_files": write_set_nonempty,
            "runs_per_hour": (evaluations as f64 / wall * 3600.0) as u64,
            "shared_state_constructs": shared_n,
            "shared_state_hits": shared_hits.iter().take(10).collect::<Vec<_>>(),
            "known_findings_reproduced": known_reproduced,
            "components_real": ["mamba lexer/parser/context/checker/generator (mamba_to_python)", "python-parser", "std::fs", "std::collections", "kernel VFS for the stub files"],
            "components_simulated": ["getrandom (hash keys) per simulated thread", "readdir order of the stub directories", "short reads / EINTR on stub reads", "clock, pid", "job-level schedule and interleaving at libc calls", "env, cwd of the process"],
        },
        "assumptions": [
            "sampling, not enumeration: hash keys, schedules and programs are sampled from the seed",
            "interleavings are explored at intercepted libc calls only (the crate has no synchronisation primitives); see shared_state_constructs",
            "the kernel returns the same bytes for the same stub file every time"
        ]
    });
    let _ = std::fs::create_dir_all(format!("{verif_dir}/evidence"));
    std::fs::write(format!("{verif_dir}/evidence/C12.json"), serde_json::to_string_pretty(&ev).unwrap()).expect("write evidence");
    println!(
        "C12 {}: {} evaluations, {} scenarios, {} distinct (program, hash order), {} hash orders, verdicts {:?}, {} violations, {:.1}s",
        tier.name, evaluations, scenarios.len(), distinct.len(), orders.len(), verdicts, n_viol, wall
    );
    if !replay_path.is_empty() {
        println!("replay: {replay_path}");
    }
    Outcome { exit }
}
