//! C13 — projects: all-or-nothing, mirrored layout, order-independent, non-interfering.
//!
//! Driver side: executes project histories step by step on a scratch tree (each transpile
//! step in its own executor process), judges every step against the before-snapshot plus
//! the reference output of the pure API, checks the metamorphic relations, minimises and
//! replays.

use crate::c12::{self, RefCache};
use crate::pool::{exe, run_exec};
use crate::scen::*;
use crate::simlibc::PlanItem;
use crate::util::digest;
use serde::{Deserialize, Serialize};
use std::collections::{BTreeMap, BTreeSet};
use std::path::{Path, PathBuf};

#[derive(Clone, Debug, Serialize, Deserialize, PartialEq, Eq)]
#[serde(tag = "op", rename_all = "snake_case")]
pub enum Op {
    /// (re)materialise a project version under the source directory
    Project {
        files: Vec<SrcFile>,
        #[serde(default)]
        bystanders: Vec<SrcFile>,
        /// files elsewhere in the project directory (not under the source directory): must be
        /// ignored, e.g. `src2/ignored.mamba` next to `src`
        #[serde(default)]
        outside: Vec<SrcFile>,
        /// the single file made faulty in this version, if any: its relative path and the
        /// fault line appended to it (without that line the version is the valid base)
        #[serde(default)]
        faulty: Option<Faulty>,
        /// a second faulty file of the same kind (same fault line at the same position): every
        /// faulty file must be named then, and no other
        #[serde(default)]
        faulty2: Option<Faulty>,
        #[serde(default)]
        note: String,
    },
    /// put things into the output directory that earlier runs may have left there
    Prepopulate { entries: Vec<SrcFile> },
    Transpile {
        hash_seed: u64,
        readdir_seed: u64,
        #[serde(default)]
        plan: Vec<PlanItem>,
        #[serde(default)]
        crash_at: Option<u64>,
        #[serde(default)]
        disk_budget: Option<i64>,
        /// also run the shipped binary on a copy of the tree and compare (fault-free steps only)
        #[serde(default)]
        cli: bool,
        /// this run only: another input (a single file instead of the directory, or the other
        /// way round) and/or the other annotate value — two configurations used one after the
        /// other on the same project and output directory
        #[serde(default)]
        input_override: Option<InputOverride>,
    },
}

#[derive(Clone, Debug, Serialize, Deserialize, PartialEq, Eq)]
pub struct InputOverride {
    /// Some(rel) = that single file is the input; None = the source directory
    pub src_file: Option<String>,
    pub annotate: bool,
}

#[derive(Clone, Debug, Serialize, Deserialize, PartialEq, Eq)]
pub struct Faulty {
    pub path: String,
    pub line: String,
    /// the fault line is the first line of the file (else: appended at the end)
    #[serde(default)]
    pub at_top: bool,
}

#[derive(Clone, Debug, Serialize, Deserialize, PartialEq, Eq, Default)]
pub struct Layout {
    /// source directory name under the project directory (None = default `src`)
    #[serde(default)]
    pub src: Option<String>,
    /// output directory name (None = default `target`)
    #[serde(default)]
    pub target: Option<String>,
    /// give a single file (relative to the source directory) as input instead of the directory
    #[serde(default)]
    pub src_file: Option<String>,
    /// how the input / output argument is written: "" (relative name), "abs" (absolute path),
    /// "slash" (trailing slash), "dotdot" (`../<project>/<name>`)
    #[serde(default)]
    pub src_form: String,
    #[serde(default)]
    pub target_form: String,
    /// paths below the source directory (a file, or a directory prefix) that are materialised
    /// as symbolic links into `<project>/lnkstore/` whenever a version has them: a linked
    /// .mamba file, or a file below a linked directory, is a project member like any other
    #[serde(default)]
    pub links: Vec<String>,
    /// (alias, target): first-level directories of the source tree that hold the same files with
    /// the same texts; whenever a version has both, `alias` is materialised as a symbolic link
    /// to `target` — one directory reachable under two names, every file under each of them a
    /// project member
    #[serde(default)]
    pub aliases: Vec<(String, String)>,
}

#[derive(Clone, Debug, Serialize, Deserialize, PartialEq, Eq)]
#[serde(tag = "rel", rename_all = "snake_case")]
pub enum Rel {
    /// pure API: every permutation gives the same verdict and per-file bytes
    Order { op: usize, perms: Vec<Vec<usize>> },
    /// `ext` = `base` plus one unrelated file: verdict and outputs of the others unchanged
    Interference { base_op: usize, ext_op: usize },
    /// two versions with the same set of file texts under other names/order: same output per text
    SameTexts { op_a: usize, op_b: usize },
    /// Class K is defined in `lib` (block `k_block`, self-contained); `user_body` is a
    /// self-contained file and `use_line` constructs a K.  Given that lib alone, and
    /// user_body + k_block + use_line as one file, are accepted (K local), the two-file
    /// project [lib, user_body + use_line] must be accepted too (K in the other file), in both
    /// orders; user_body + use_line alone, and together with lib minus K, must be rejected.
    Visibility { lib: SrcFile, user_body: SrcFile, k_block: String, use_line: String, lib_without_def: SrcFile },
}

#[derive(Clone, Debug, Serialize, Deserialize, PartialEq, Eq)]
pub struct C13Scenario {
    pub property: String,
    pub seed: u64,
    pub index: u64,
    pub root_name: String,
    #[serde(default)]
    pub layout: Layout,
    pub annotate: bool,
    /// all steps of the history run in ONE process (and on one thread) of the code under
    /// test — as in a watch mode — instead of one process per step; a simulated crash ends
    /// that process and the next step starts a new one
    #[serde(default)]
    pub session: bool,
    /// TMPDIR of the executor: "" (unset, the system default), "missing" (names a directory
    /// that does not exist), "private" (an empty directory inside the scratch root)
    #[serde(default)]
    pub tmpdir: String,
    pub history: Vec<Op>,
    #[serde(default)]
    pub relations: Vec<Rel>,
    #[serde(default)]
    pub expect: Option<Expect>,
}

#[derive(Clone, Debug)]
pub struct Viol {
    pub class: String,
    pub step: usize,
    pub detail: String,
    /// non-benign faults that fired during the step the violation belongs to (call:kind)
    pub fired: Vec<String>,
    /// outcome of that step
    pub outcome: String,
}

impl Viol {
    pub fn new(class: &str, step: usize, detail: String) -> Viol {
        Viol { class: class.to_string(), step, detail, fired: vec![], outcome: String::new() }
    }
}

#[derive(Clone, Debug, PartialEq, Eq)]
pub struct Node {
    pub dir: bool,
    pub data: Vec<u8>,
}

pub type Tree = BTreeMap<String, Node>;

pub fn snapshot(root: &str) -> Tree {
    let mut t = Tree::new();
    fn walk(base: &Path, dir: &Path, t: &mut Tree) {
        let mut es: Vec<PathBuf> = match std::fs::read_dir(dir) {
            Ok(r) => r.flatten().map(|e| e.path()).collect(),
            Err(_) => return,
        };
        es.sort();
        for p in es {
            let rel = scn_name(p.strip_prefix(base).unwrap());
            let md = match std::fs::symlink_metadata(&p) {
                Ok(m) => m,
                Err(_) => continue,
            };
            if md.file_type().is_symlink() {
                let target = std::fs::read_link(&p).map(|t| t.to_string_lossy().into_owned()).unwrap_or_default();
                t.insert(rel, Node { dir: false, data: format!("symlink -> {target}").into_bytes() });
            } else if md.is_dir() {
                t.insert(rel, Node { dir: true, data: vec![] });
                walk(base, &p, t);
            } else {
                t.insert(rel, Node { dir: false, data: std::fs::read(&p).unwrap_or_default() });
            }
        }
    }
    walk(Path::new(root), Path::new(root), &mut t);
    t
}

pub fn tree_digest(t: &Tree) -> String {
    let mut v = vec![];
    for (k, n) in t {
        v.extend_from_slice(k.as_bytes());
        v.push(if n.dir { 1 } else { 0 });
        v.extend_from_slice(&(n.data.len() as u64).to_le_bytes());
        v.extend_from_slice(&n.data);
    }
    digest(&v)
}

/// Stands for one byte 0xFF in the text of a source file: scenario files are JSON, their
/// strings cannot hold a sequence that is not UTF-8.
pub const BAD_BYTE: char = '\u{F8FF}';

/// A relative path of a scenario file as the bytes on disk: U+F8FF stands for the byte 0xFF
/// (a file name that is not UTF-8 — legal on Linux).
fn os_path(rel: &str) -> PathBuf {
    use std::os::unix::ffi::OsStringExt;
    PathBuf::from(std::ffi::OsString::from_vec(encode_src(rel)))
}

/// ... and back: a name read from disk as a scenario string.
fn scn_name(p: &Path) -> String {
    use std::os::unix::ffi::OsStrExt;
    let b = p.as_os_str().as_bytes();
    match std::str::from_utf8(b) {
        Ok(s) => s.to_string(),
        Err(_) => {
            // decode what is valid, map every other byte to U+F8FF
            let mut out = String::new();
            let mut rest = b;
            while !rest.is_empty() {
                match std::str::from_utf8(rest) {
                    Ok(s) => {
                        out.push_str(s);
                        break;
                    }
                    Err(e) => {
                        out.push_str(std::str::from_utf8(&rest[..e.valid_up_to()]).unwrap());
                        out.push(BAD_BYTE);
                        rest = &rest[e.valid_up_to() + 1..];
                    }
                }
            }
            out
        }
    }
}

fn encode_src(text: &str) -> Vec<u8> {
    let mut out = Vec::with_capacity(text.len());
    let mut buf = [0u8; 4];
    for c in text.chars() {
        if c == BAD_BYTE {
            out.push(0xFF);
        } else {
            out.extend_from_slice(c.encode_utf8(&mut buf).as_bytes());
        }
    }
    out
}

fn write_file(root: &str, rel: &str, data: &[u8]) {
    let p = Path::new(root).join(os_path(rel));
    if let Some(parent) = p.parent() {
        let _ = std::fs::create_dir_all(parent);
    }
    std::fs::write(&p, data).unwrap_or_else(|e| panic!("scratch write {}: {e}", p.display()));
}

fn copy_tree(from: &str, to: &str) {
    let t = snapshot(from);
    let _ = std::fs::remove_dir_all(to);
    std::fs::create_dir_all(to).expect("copy root");
    for (rel, n) in &t {
        if n.dir {
            let _ = std::fs::create_dir_all(Path::new(to).join(os_path(rel)));
        }
    }
    for (rel, n) in &t {
        if !n.dir {
            let from_p = Path::new(from).join(os_path(rel));
            if std::fs::symlink_metadata(&from_p).map(|m| m.file_type().is_symlink()).unwrap_or(false) {
                if let Ok(target) = std::fs::read_link(&from_p) {
                    let _ = std::os::unix::fs::symlink(target, Path::new(to).join(os_path(rel)));
                }
            } else {
                write_file(to, rel, &n.data);
            }
        }
    }
}

fn norm(b: &[u8]) -> Vec<u8> {
    let s = String::from_utf8_lossy(b).replace("\r\n", "\n");
    s.into_bytes()
}

#[derive(Clone, Debug, Default)]
pub struct Stats {
    pub alias_directories: u64,
    pub sessions_started: u64,
    pub steps_in_running_session: u64,
    pub cli_bad_stderr: u64,
    pub linked_sources: u64,
    pub steps: u64,
    pub steps_ok: u64,
    pub steps_err: u64,
    pub steps_crash: u64,
    pub steps_panic: u64,
    pub steps_with_fault_fired: u64,
    pub ok_under_fault_checked: u64,
    pub recoveries_checked: u64,
    pub faults_fired: BTreeMap<String, u64>,
    pub perturbations_fired: BTreeMap<String, u64>,
    pub err_tree_untouched: u64,
    pub err_tree_prefix: u64,
    pub err_tree_other: u64,
    pub crash_between_writes: u64,
    pub overwrote_longer: u64,
    pub deleted_in_target_tolerated: u64,
    pub cli_runs: u64,
    pub cli_skipped: u64,
    pub reference_runs: u64,
    pub reference_panics: u64,
    pub relation_checks: BTreeMap<String, u64>,
    pub relation_skipped: BTreeMap<String, u64>,
    pub diag_file_checks: u64,
    pub multi_file_steps: u64,
    pub calls: u64,
    pub clock_calls: u64,
    pub pid_calls: u64,
    pub cwd_calls: u64,
    pub trace_tree_pairs: BTreeSet<(String, String)>,
    pub trees: BTreeSet<String>,
    pub single_faulty_rejected: u64,
    pub fault_not_faulty: u64,
    pub steps_with_obstacle: u64,
    pub faulty_kinds_checked: BTreeMap<String, u64>,
    pub same_base_name_checks: u64,
}

impl Stats {
    pub fn merge(&mut self, o: &Stats) {
        self.steps += o.steps;
        self.steps_ok += o.steps_ok;
        self.steps_err += o.steps_err;
        self.steps_crash += o.steps_crash;
        self.steps_panic += o.steps_panic;
        self.steps_with_fault_fired += o.steps_with_fault_fired;
        self.ok_under_fault_checked += o.ok_under_fault_checked;
        self.recoveries_checked += o.recoveries_checked;
        for (k, v) in &o.faults_fired {
            *self.faults_fired.entry(k.clone()).or_insert(0) += v;
        }
        for (k, v) in &o.perturbations_fired {
            *self.perturbations_fired.entry(k.clone()).or_insert(0) += v;
        }
        self.err_tree_untouched += o.err_tree_untouched;
        self.err_tree_prefix += o.err_tree_prefix;
        self.err_tree_other += o.err_tree_other;
        self.crash_between_writes += o.crash_between_writes;
        self.overwrote_longer += o.overwrote_longer;
        self.deleted_in_target_tolerated += o.deleted_in_target_tolerated;
        self.cli_runs += o.cli_runs;
        self.linked_sources += o.linked_sources;
        self.cli_bad_stderr += o.cli_bad_stderr;
        self.sessions_started += o.sessions_started;
        self.alias_directories += o.alias_directories;
        self.steps_in_running_session += o.steps_in_running_session;
        self.cli_skipped += o.cli_skipped;
        self.reference_runs += o.reference_runs;
        self.reference_panics += o.reference_panics;
        for (k, v) in &o.relation_checks {
            *self.relation_checks.entry(k.clone()).or_insert(0) += v;
        }
        for (k, v) in &o.relation_skipped {
            *self.relation_skipped.entry(k.clone()).or_insert(0) += v;
        }
        self.diag_file_checks += o.diag_file_checks;
        self.multi_file_steps += o.multi_file_steps;
        self.calls += o.calls;
        self.clock_calls += o.clock_calls;
        self.pid_calls += o.pid_calls;
        self.cwd_calls += o.cwd_calls;
        self.trace_tree_pairs.extend(o.trace_tree_pairs.iter().cloned());
        self.trees.extend(o.trees.iter().cloned());
        self.single_faulty_rejected += o.single_faulty_rejected;
        self.fault_not_faulty += o.fault_not_faulty;
        for (k, v) in &o.faulty_kinds_checked {
            *self.faulty_kinds_checked.entry(k.clone()).or_insert(0) += v;
        }
        self.same_base_name_checks += o.same_base_name_checks;
        self.steps_with_obstacle += o.steps_with_obstacle;
    }
}

#[derive(Clone, Debug, Default)]
pub struct Version {
    pub files: Vec<SrcFile>,
    pub bystanders: Vec<SrcFile>,
    pub faulty: Option<Faulty>,
    pub faulty2: Option<Faulty>,
    pub note: String,
}

/// Executes a history op by op.  Used both for checking a fixed scenario and by the
/// generator, which looks at the profile of earlier steps to place faults.
pub struct HistExec {
    pub root: String,
    pub root_name: String,
    pub layout: Layout,
    pub annotate: bool,
    pub version: Version,
    pub violations: Vec<Viol>,
    pub stats: Stats,
    pub step_no: usize,
    pub needs_recovery: bool,
    pub has_project: bool,
    /// relative paths of every source file any version of this history had
    pub ever_sources: BTreeSet<String>,
    /// profile of the most recent fault-free step of the current version
    pub last_counters: BTreeMap<String, u32>,
    pub last_calls: u64,
    pub last_log: Vec<String>,
    pub last_log_seq: Vec<u64>,
    pub last_outcome: String,
    pub refs: RefCache,
    /// reference outputs per Project op index: file text digest -> output bytes (when Ok)
    pub version_refs: BTreeMap<usize, JobResult>,
    pub session_mode: bool,
    pub session: Option<crate::pool::Session>,
    pub env: BTreeMap<String, String>,
}

fn src_dir_name(layout: &Layout) -> String {
    layout.src.clone().unwrap_or_else(|| "src".into())
}
fn target_name(layout: &Layout) -> String {
    layout.target.clone().unwrap_or_else(|| "target".into())
}

/// The files a step is given, in the order the reference is asked for them (sorted by path).
pub fn input_files(version: &Version, layout: &Layout) -> Vec<SrcFile> {
    let mut fs: Vec<SrcFile> = match &layout.src_file {
        Some(rel) => version.files.iter().filter(|f| &f.path == rel).cloned().collect(),
        None => version.files.clone(),
    };
    fs.sort_by(|a, b| a.path.cmp(&b.path));
    fs
}

/// Relative path (under the output directory) of the Python file mirrored from `rel`.
pub fn mirrored(rel: &str, layout: &Layout) -> String {
    let p = match &layout.src_file {
        Some(_) => PathBuf::from(Path::new(rel).file_name().unwrap_or_default()),
        None => PathBuf::from(rel),
    };
    p.with_extension("py").to_string_lossy().into_owned()
}

pub fn reference(files: &[SrcFile], annotate: bool, refs: &mut RefCache, stats: &mut Stats) -> JobResult {
    // a source that is not UTF-8 cannot be handed to the pure API at all: the only acceptable
    // outcome of the project is an error
    if files.iter().any(|f| f.text.contains(BAD_BYTE)) {
        return JobResult { verdict: "err".into(), ..Default::default() };
    }
    let p = Program { files: files.to_vec(), annotate, features: vec![], label: String::new(), path_mode: String::new() };
    let k = c12::program_key(&p);
    if !refs.map.contains_key(&k) {
        stats.reference_runs += 1;
    }
    refs.get_or_run(&p)
}

/// file names that appear as locations (`──→ path:line:col`) in rendered diagnostics
fn diag_locations(diags: &[String]) -> Vec<String> {
    let mut v = vec![];
    for d in diags {
        for line in d.lines() {
            if let Some(i) = line.find("──→ ") {
                let rest = &line[i + "──→ ".len()..];
                // strip :line:col
                let mut parts: Vec<&str> = rest.rsplitn(3, ':').collect();
                parts.reverse();
                let path = if parts.len() == 3 && parts[1].chars().all(|c| c.is_ascii_digit()) && parts[2].trim().chars().all(|c| c.is_ascii_digit()) {
                    parts[0].to_string()
                } else {
                    rest.to_string()
                };
                v.push(path.trim().to_string());
            }
        }
    }
    v
}

impl HistExec {
    pub fn new(scratch: &str, sc_header: &C13Scenario) -> HistExec {
        let root = format!("{}/r{}", scratch, &digest(format!("{}-{}-{}", sc_header.seed, sc_header.index, sc_header.root_name).as_bytes())[..12]);
        let _ = std::fs::remove_dir_all(&root);
        std::fs::create_dir_all(format!("{root}/{}", sc_header.root_name)).expect("project dir");
        std::fs::create_dir_all(format!("{root}/cwd")).expect("cwd dir");
        std::fs::create_dir_all(format!("{root}/elsewhere")).expect("elsewhere dir");
        write_file(&root, "outside/sentinel.txt", b"must stay as it is\n");
        let root_for_env = root.clone();
        HistExec {
            root,
            root_name: sc_header.root_name.clone(),
            layout: sc_header.layout.clone(),
            annotate: sc_header.annotate,
            version: Version::default(),
            violations: vec![],
            stats: Stats::default(),
            step_no: 0,
            needs_recovery: false,
            has_project: false,
            ever_sources: BTreeSet::new(),
            last_counters: BTreeMap::new(),
            last_calls: 0,
            last_log: vec![],
            last_log_seq: vec![],
            last_outcome: String::new(),
            refs: RefCache::new(),
            version_refs: BTreeMap::new(),
            session_mode: sc_header.session,
            session: None,
            env: {
                let mut e = BTreeMap::new();
                match sc_header.tmpdir.as_str() {
                    "missing" => {
                        e.insert("TMPDIR".to_string(), format!("{root_for_env}/no-such-tmp"));
                    }
                    "private" => {
                        std::fs::create_dir_all(format!("{root_for_env}/tmp")).expect("private tmp");
                        e.insert("TMPDIR".to_string(), format!("{root_for_env}/tmp"));
                    }
                    _ => {}
                }
                e
            },
        }
    }

    pub fn cleanup(&mut self) {
        if let Some(s) = self.session.take() {
            let _ = s.close();
        }
        let _ = std::fs::remove_dir_all(&self.root);
        let _ = std::fs::remove_dir_all(format!("{}-cli", self.root));
    }

    fn proj(&self) -> String {
        format!("{}/{}", self.root, self.root_name)
    }

    /// output directory relative to the scratch root
    pub fn out_rel(&self) -> String {
        if self.layout.target_form == "abs_outside" {
            format!("elsewhere/{}", target_name(&self.layout))
        } else {
            format!("{}/{}", self.root_name, target_name(&self.layout))
        }
    }

    pub fn apply(&mut self, op_index: usize, op: &Op) {
        match op {
            Op::Project { files, bystanders, outside, faulty, faulty2, note } => {
                let src = format!("{}/{}", self.proj(), src_dir_name(&self.layout));
                if src_dir_name(&self.layout) != "." {
                    let _ = std::fs::remove_dir_all(&src);
                    for f in outside {
                        write_file(&self.proj(), &f.path, f.text.as_bytes());
                    }
                } else {
                    // the project directory is the source directory: remove the old sources only
                    for f in self.version.files.iter().chain(self.version.bystanders.iter()) {
                        let _ = std::fs::remove_file(Path::new(&src).join(os_path(&f.path)));
                    }
                }
                std::fs::create_dir_all(&src).expect("src dir");
                for f in files.iter().chain(bystanders.iter()) {
                    write_file(&src, &f.path, &encode_src(&f.text));
                }
                let store = format!("{}/lnkstore", self.proj());
                let _ = std::fs::remove_dir_all(&store);
                if src_dir_name(&self.layout) != "." {
                    for l in &self.layout.links {
                        let p = Path::new(&src).join(l);
                        if std::fs::symlink_metadata(&p).is_ok() {
                            let dest = Path::new(&store).join(l);
                            std::fs::create_dir_all(dest.parent().unwrap()).expect("link store");
                            std::fs::rename(&p, &dest).expect("move into link store");
                            let ups = "../".repeat(Path::new(l).components().count());
                            std::os::unix::fs::symlink(format!("{ups}lnkstore/{l}"), &p).expect("symlink in the source tree");
                            self.stats.linked_sources += 1;
                        }
                    }
                }
                if src_dir_name(&self.layout) != "." {
                    for (a, t) in &self.layout.aliases {
                        let under = |d: &str| -> BTreeMap<String, String> {
                            files.iter().chain(bystanders.iter()).filter_map(|f| f.path.strip_prefix(&format!("{d}/")).map(|r| (r.to_string(), f.text.clone()))).collect()
                        };
                        let (fa, ft) = (under(a), under(t));
                        if !fa.is_empty() && fa == ft {
                            let pa = Path::new(&src).join(a);
                            if std::fs::remove_dir_all(&pa).is_ok() && std::os::unix::fs::symlink(t, &pa).is_ok() {
                                self.stats.linked_sources += fa.len() as u64;
                                self.stats.alias_directories += 1;
                            }
                        }
                    }
                }
                self.has_project = true;
                for f in files {
                    self.ever_sources.insert(f.path.clone());
                }
                self.version = Version { files: files.clone(), bystanders: bystanders.clone(), faulty: faulty.clone(), faulty2: faulty2.clone(), note: note.clone() };
                self.last_counters.clear();
                self.last_calls = 0;
                self.last_log.clear();
                self.last_log_seq.clear();
                let _ = op_index;
            }
            Op::Prepopulate { entries } => {
                let out = format!("{}/{}", self.root, self.out_rel());
                if entries.iter().any(|e| e.path == ".") {
                    // the output "directory" is a file somebody put there
                    let _ = std::fs::remove_dir_all(&out);
                    let _ = std::fs::remove_file(&out);
                    if let Some(parent) = Path::new(&out).parent() {
                        let _ = std::fs::create_dir_all(parent);
                    }
                    std::fs::write(&out, b"not a directory\n").expect("target file");
                    return;
                }
                std::fs::create_dir_all(&out).expect("target dir");
                for e in entries {
                    let p = Path::new(&out).join(os_path(&e.path));
                    if e.path.ends_with('/') {
                        // a directory; when a file occupies the path it is replaced
                        let q = Path::new(&out).join(os_path(e.path.trim_end_matches('/')));
                        if q.is_file() {
                            let _ = std::fs::remove_file(&q);
                        }
                        let _ = std::fs::create_dir_all(&p);
                    } else {
                        if p.is_dir() {
                            let _ = std::fs::remove_dir_all(&p);
                        }
                        write_file(&out, &e.path, e.text.as_bytes());
                    }
                }
            }
            Op::Transpile { hash_seed, readdir_seed, plan, crash_at, disk_budget, cli, input_override } => {
                // an override applies to this run only
                let saved = (self.layout.src_file.clone(), self.annotate);
                if let Some(o) = input_override {
                    self.layout.src_file = o.src_file.clone();
                    self.annotate = o.annotate;
                }
                self.transpile(op_index, *hash_seed, *readdir_seed, plan, *crash_at, *disk_budget, *cli);
                self.layout.src_file = saved.0;
                self.annotate = saved.1;
            }
        }
    }

    fn step_spec(&self, hash_seed: u64, readdir_seed: u64, plan: &[PlanItem], crash_at: Option<u64>, disk_budget: Option<i64>, root: &str) -> StepSpec {
        let form = |name: &str, form: &str| -> String {
            match form {
                "abs" => format!("{root}/{}/{name}", self.root_name),
                "abs_outside" => format!("{root}/elsewhere/{name}"),
                "slash" => format!("{name}/"),
                "dotdot" => format!("../{}/{name}", self.root_name),
                // through a symbolic link to the project directory ($ROOT/lnk -> <project>)
                "symlink" => format!("../lnk/{name}"),
                _ => name.to_string(),
            }
        };
        let src_arg = match (&self.layout.src, &self.layout.src_file) {
            (_, Some(f)) => {
                let sf = if self.layout.src_form == "slash" { "" } else { self.layout.src_form.as_str() };
                Some(form(&format!("{}/{}", src_dir_name(&self.layout), f), sf))
            }
            (Some(s), None) => Some(form(s, &self.layout.src_form)),
            (None, None) if !self.layout.src_form.is_empty() => Some(form("src", &self.layout.src_form)),
            (None, None) => None,
        };
        let target_arg = match &self.layout.target {
            Some(t) => Some(form(t, &self.layout.target_form)),
            None if !self.layout.target_form.is_empty() => Some(form("target", &self.layout.target_form)),
            None => None,
        };
        StepSpec {
            root: root.to_string(),
            dir: self.root_name.clone(),
            src: src_arg,
            target: target_arg,
            annotate: self.annotate,
            hash_seed,
            readdir_seed,
            plan: plan.to_vec(),
            crash_at,
            disk_budget,
            clock: 0,
            pid: 0,
            keep_log: true,
        }
    }

    fn run_step(&mut self, spec: &StepSpec) -> StepResult {
        let input = serde_json::to_string(spec).unwrap();
        if self.session_mode {
            if self.session.is_none() {
                self.session = crate::pool::Session::spawn("exec-session", &self.env, &format!("{}/cwd", spec.root));
                self.stats.sessions_started += 1;
            }
            let reply = self.session.as_mut().and_then(|s| s.request(&input));
            match reply.as_deref().map(serde_json::from_str::<StepResult>) {
                Some(Ok(r)) => {
                    if r.outcome == "crash" {
                        // the process is gone with the crash
                        if let Some(s) = self.session.take() {
                            let _ = s.close();
                        }
                    } else {
                        self.stats.steps_in_running_session += 1;
                    }
                    return r;
                }
                _ => {
                    let how = self.session.take().map(|s| s.close());
                    return StepResult { outcome: "abort".into(), panic_msg: format!("session executor ended: {how:?}"), ..Default::default() };
                }
            }
        }
        let out = run_exec("exec-step", &input, &self.env, &format!("{}/cwd", spec.root), &[]);
        // a crash record (exit 137) and a normal result are both one JSON line on stdout
        if let Some(line) = out.stdout.lines().last() {
            if let Ok(r) = serde_json::from_str::<StepResult>(line) {
                if out.code == Some(0) || (out.code == Some(137) && r.outcome == "crash") {
                    return r;
                }
            }
        }
        StepResult {
            outcome: "abort".into(),
            panic_msg: format!("code={:?} signal={:?} stderr={}", out.code, out.signal, out.stderr.chars().take(300).collect::<String>()),
            ..Default::default()
        }
    }

    fn transpile(&mut self, op_index: usize, hash_seed: u64, readdir_seed: u64, plan: &[PlanItem], crash_at: Option<u64>, disk_budget: Option<i64>, cli: bool) {
        let step = op_index;
        self.step_no += 1;
        let via_link = self.layout.src_form == "symlink" || self.layout.target_form == "symlink";
        if via_link {
            let l = format!("{}/lnk", self.root);
            if std::fs::symlink_metadata(&l).is_err() {
                std::os::unix::fs::symlink(&self.root_name, &l).expect("symlink to the project directory");
            }
        }
        let before = snapshot(&self.root);
        let files = input_files(&self.version, &self.layout);
        let mut r = reference(&files, self.annotate, &mut self.refs, &mut self.stats);
        if !self.has_project {
            // no source directory exists yet: the only acceptable outcome is an error
            r = JobResult { verdict: "err".into(), ..Default::default() };
        }
        if let Some(f) = &self.layout.src_file {
            if !self.version.files.iter().any(|x| &x.path == f) {
                // the single input file does not exist (in this version): an error, too
                r = JobResult { verdict: "err".into(), ..Default::default() };
            }
        }
        let fault_configured = crash_at.is_some() || disk_budget.is_some() || plan.iter().any(|p| !is_benign(p));
        // An obstacle somebody put into the output directory — a directory where a mirrored
        // file must go, a file where a directory is needed — is an environment fault like an
        // I/O error: the run may fail (what it touches stays inside the mirror), and may report
        // success only over the exact tree.
        let obstacle = {
            let out_rel = self.out_rel();
            let mut found = before.get(&out_rel).map(|n| !n.dir).unwrap_or(false);
            for f in &files {
                let p = format!("{out_rel}/{}", mirrored(&f.path, &self.layout));
                if before.get(&p).map(|n| n.dir).unwrap_or(false) {
                    found = true;
                }
                let mut cur = Path::new(&p).parent();
                while let Some(c) = cur {
                    let s = c.to_string_lossy().into_owned();
                    if s.is_empty() {
                        break;
                    }
                    if before.get(&s).map(|n| !n.dir).unwrap_or(false) {
                        found = true;
                    }
                    cur = c.parent();
                }
            }
            found
        };
        if obstacle {
            self.stats.steps_with_obstacle += 1;
        }

        // the shipped binary on a copy of the tree (fault-free steps only)
        let mut cli_result: Option<(i32, Tree)> = None;
        if cli && !fault_configured && !obstacle {
            match (std::env::var("MSIM_MAMBA_BIN"), std::env::var("MSIM_PRELOAD")) {
                (Ok(bin), Ok(pre)) if Path::new(&bin).exists() && Path::new(&pre).exists() => {
                    let copy = format!("{}-cli", self.root);
                    copy_tree(&self.root, &copy);
                    let mut c = std::process::Command::new(&bin);
                    c.env_clear();
                    c.env("LD_PRELOAD", &pre);
                    c.env("MSIM_HASH_SEED", hash_seed.to_string());
                    c.current_dir(format!("{copy}/{}", self.root_name));
                    let spec = self.step_spec(hash_seed, readdir_seed, plan, None, None, &copy);
                    if let Some(s) = &spec.src {
                        c.arg("-i").arg(s);
                    }
                    if let Some(t) = &spec.target {
                        c.arg("-o").arg(t);
                    }
                    if self.annotate {
                        c.arg("-a");
                    }
                    // sometimes a standard error that cannot be written (full disk behind a
                    // redirected log, a pipe whose reader has gone): a failure must still be a
                    // failure.  Without logging flags then — a logger that cannot log is
                    // allowed to complain.
                    let bad_stderr = (hash_seed >> 5) % 4 == 0;
                    if !bad_stderr {
                        // flags that only concern logging must not matter
                        if hash_seed % 3 == 0 {
                            c.arg("-v");
                        }
                        if hash_seed % 4 == 1 {
                            c.arg("-vv");
                        }
                        if hash_seed % 5 == 0 {
                            c.arg("--no-color");
                        }
                        if hash_seed % 7 == 0 {
                            c.arg("-l");
                        }
                        if hash_seed % 11 == 0 {
                            c.arg("-d").arg("--no-module-path");
                        }
                    }
                    c.stdin(std::process::Stdio::null()).stdout(std::process::Stdio::null()).stderr(std::process::Stdio::null());
                    unsafe {
                        use std::os::unix::process::CommandExt;
                        c.pre_exec(|| {
                            libc::personality(libc::ADDR_NO_RANDOMIZE as libc::c_ulong);
                            Ok(())
                        });
                    }
                    if bad_stderr {
                        if (hash_seed >> 7) % 2 == 0 {
                            if let Ok(f) = std::fs::OpenOptions::new().write(true).open("/dev/full") {
                                c.stderr(f);
                                self.stats.cli_bad_stderr += 1;
                            }
                        } else {
                            let mut fds = [0i32; 2];
                            if unsafe { libc::pipe2(fds.as_mut_ptr(), libc::O_CLOEXEC) } == 0 {
                                unsafe { libc::close(fds[0]) };
                                use std::os::fd::FromRawFd;
                                c.stderr(unsafe { std::process::Stdio::from_raw_fd(fds[1]) });
                                self.stats.cli_bad_stderr += 1;
                            }
                        }
                    }
                    match c.status() {
                        Ok(st) => {
                            self.stats.cli_runs += 1;
                            cli_result = Some((st.code().unwrap_or(-1), snapshot(&copy)));
                        }
                        Err(e) => {
                            self.violations.push(Viol::new("harness", step, format!("cannot run mamba binary: {e}")));
                        }
                    }
                    let _ = std::fs::remove_dir_all(&copy);
                }
                _ => self.stats.cli_skipped += 1,
            }
        }

        let spec = self.step_spec(hash_seed, readdir_seed, plan, crash_at, disk_budget, &self.root);
        let res = self.run_step(&spec);
        let after = snapshot(&self.root);
        if std::env::var("MSIM_TRACE").is_ok() {
            println!("---- op {op_index}: outcome={} diags={:?} fired={:?}", res.outcome, res.diags.iter().map(|d| d.lines().next().unwrap_or("").to_string()).collect::<Vec<_>>(), res.fired);
            for l in &res.log {
                if !l.contains("$STUB") && !l.starts_with("read fd") && !l.starts_with("close") && !l.starts_with("lseek") && !l.starts_with("statx fd") {
                    println!("     {l}");
                }
            }
        }

        // ---- bookkeeping
        self.stats.steps += 1;
        self.stats.calls += res.calls;
        self.stats.clock_calls += res.clock_calls as u64;
        self.stats.pid_calls += res.pid_calls as u64;
        self.stats.cwd_calls += res.cwd_calls as u64;
        if files.len() > 1 {
            self.stats.multi_file_steps += 1;
        }
        match res.outcome.as_str() {
            "ok" => self.stats.steps_ok += 1,
            "err" => self.stats.steps_err += 1,
            "crash" => self.stats.steps_crash += 1,
            _ => self.stats.steps_panic += 1,
        }
        let mut fault_fired = res.outcome == "crash" || obstacle;
        for f in &res.fired {
            let k = format!("{}:{}{}", f.call, f.kind, if f.kind == "errno" { format!("({})", f.arg) } else { String::new() });
            if f.benign {
                *self.stats.perturbations_fired.entry(k).or_insert(0) += 1;
            } else {
                fault_fired = true;
                *self.stats.faults_fired.entry(k).or_insert(0) += 1;
            }
        }
        if res.outcome == "crash" {
            *self.stats.faults_fired.entry("crash".into()).or_insert(0) += 1;
        }
        if fault_fired {
            self.stats.steps_with_fault_fired += 1;
        }
        self.stats.trace_tree_pairs.insert((res.log_digest.clone(), tree_digest(&after)));
        self.stats.trees.insert(tree_digest(&after));
        self.last_outcome = res.outcome.clone();

        if res.outcome == "abort" {
            // the executor died without a planned crash: stack overflow or similar.  Attribute.
            if r.verdict.starts_with("abort") {
                self.stats.reference_panics += 1;
            } else {
                self.violations.push(Viol::new("panic", step, format!("executor died: {}", res.panic_msg)));
            }
            return;
        }

        let out_rel = self.out_rel();
        let mut step_viol: Vec<Viol> = vec![];

        // paths written outside the scratch root that still exist
        for (what, p) in &res.write_set {
            if !p.starts_with("$ROOT") && Path::new(p).exists() && what != "unlink" && what != "rmdir" {
                step_viol.push(Viol::new("wrote_outside_mirror", step, format!("{what} {p} (outside the project tree)")));
                // reported; do not leave it on the machine (temp directories only)
                if (p.starts_with("/tmp/") || p.starts_with("/var/tmp/") || p.starts_with("/dev/shm/")) && Path::new(p).is_file() {
                    let _ = std::fs::remove_file(p);
                }
            }
        }

        let ref_abnormal = r.verdict == "panic" || r.verdict.starts_with("abort");
        if ref_abnormal {
            self.stats.reference_panics += 1;
        }

        if !fault_fired {
            if !ref_abnormal && res.outcome == "panic" {
                step_viol.push(Viol::new("panic", step, format!("transpile_dir panicked: {}", res.panic_msg.lines().next().unwrap_or(""))));
            } else if !ref_abnormal {
                if r.verdict != res.outcome {
                    step_viol.push(Viol::new("verdict_differs_from_reference", step, format!("{} says {} but transpile_dir returned {} {}", if files.iter().any(|f| f.text.contains(BAD_BYTE)) { "a source that is not UTF-8" } else { "mamba_to_python" }, r.verdict, res.outcome, res.diags.first().map(|d| d.lines().next().unwrap_or("").to_string()).unwrap_or_default())));
                } else if res.outcome == "ok" {
                    step_viol.extend(self.judge_ok(step, &before, &after, &files, &r, &out_rel));
                    let expect_path = format!("$ROOT/{out_rel}");
                    let got = lexical_norm(&res.ok_path);
                    let got = match got.strip_prefix("$ROOT/lnk/") {
                        Some(rest) if via_link => format!("$ROOT/{}/{rest}", self.root_name),
                        _ => got,
                    };
                    if got != expect_path {
                        step_viol.push(Viol::new("ok_but_tree_differs_extra", step, format!("returned output directory {} instead of {}", res.ok_path, expect_path)));
                    }
                } else if res.outcome == "err" {
                    step_viol.extend(self.judge_err(step, &before, &after, &res, &out_rel));
                }
            }
            if self.needs_recovery {
                self.stats.recoveries_checked += 1;
                for v in step_viol.iter_mut() {
                    v.detail = format!("after a faulted run: {} ({})", v.detail, v.class);
                    v.class = "no_recovery_after_faults".into();
                }
                self.needs_recovery = false;
            }
            // compare with the shipped binary
            if let Some((code, cli_tree)) = cli_result {
                let lib_ok = res.outcome == "ok";
                if (code == 0) != lib_ok {
                    step_viol.push(Viol::new("cli_disagrees_with_library", step, format!("binary exit status {code}, library returned {}", res.outcome)));
                } else if cli_tree != after {
                    let mut d = String::new();
                    for k in cli_tree.keys().chain(after.keys()) {
                        if cli_tree.get(k) != after.get(k) {
                            d = k.clone();
                            break;
                        }
                    }
                    step_viol.push(Viol::new("cli_disagrees_with_library", step, format!("trees differ at {d}")));
                }
            }
            if plan.iter().all(is_benign) && crash_at.is_none() && disk_budget.is_none() {
                self.last_counters = res.counters.clone();
                self.last_calls = res.calls;
                self.last_log = res.log.clone();
                self.last_log_seq = res.log_seq.clone();
            }
        } else {
            // a fault fired: success may still not be reported over a wrong tree
            if res.outcome == "ok" && !ref_abnormal {
                self.stats.ok_under_fault_checked += 1;
                if r.verdict != "ok" {
                    step_viol.push(Viol::new("verdict_differs_from_reference", step, format!("mamba_to_python says {} but transpile_dir returned ok under a fault", r.verdict)));
                } else {
                    step_viol.extend(self.judge_ok(step, &before, &after, &files, &r, &out_rel));
                }
            } else {
                // Little is demanded of the tree after a failed or killed run — but what it
                // touched must still lie inside the mirror: every path that is new or changed is
                // a mirrored `.py` path (any content: the write may be cut short) or a directory
                // leading to one.  A temporary, lock or stamp file that a killed run leaves behind
                // is "something else" that was written and is still there.
                {
                    let mut allowed_files: BTreeSet<String> = BTreeSet::new();
                    let mut allowed_dirs: BTreeSet<String> = BTreeSet::new();
                    allowed_dirs.insert(out_rel.clone());
                    for f in files.iter() {
                        let p = format!("{out_rel}/{}", mirrored(&f.path, &self.layout));
                        let mut cur = Path::new(&p).parent();
                        while let Some(c) = cur {
                            let s = c.to_string_lossy().into_owned();
                            if s.is_empty() {
                                break;
                            }
                            allowed_dirs.insert(s);
                            cur = c.parent();
                        }
                        allowed_files.insert(p);
                    }
                    for (p, n) in &after {
                        if before.get(p) == Some(n) {
                            continue;
                        }
                        let ok = if n.dir { allowed_dirs.contains(p) } else { allowed_files.contains(p) };
                        if !ok {
                            step_viol.push(Viol::new(
                                "wrote_outside_mirror",
                                step,
                                format!("{} by a run that then {}: {p}", if before.contains_key(p) { "modified" } else { "created" }, if res.outcome == "crash" { "was killed" } else { "failed" }),
                            ));
                        }
                    }
                    // it may remove (or leave cut short) its OWN outputs, nothing else
                    for p in before.keys() {
                        if !after.contains_key(p) && !allowed_files.contains(p) {
                            step_viol.push(Viol::new("wrote_outside_mirror", step, format!("deleted by a run that then failed: {p}")));
                        }
                    }
                }
                let changed: Vec<&String> = after.keys().filter(|k| before.get(*k) != after.get(*k)).collect();
                let py_changed: Vec<&&String> = changed.iter().filter(|k| k.ends_with(".py")).collect();
                if py_changed.is_empty() {
                    self.stats.err_tree_untouched += 1;
                } else if r.verdict == "ok" {
                    let mut all_prefix = true;
                    let mut complete = 0;
                    for (i, f) in files.iter().enumerate() {
                        let p = format!("{out_rel}/{}", mirrored(&f.path, &self.layout));
                        if let (Some(n), Some(exp)) = (after.get(&p), r.outputs.get(i)) {
                            let e = norm(exp.as_bytes());
                            if !e.starts_with(&n.data) {
                                all_prefix = false;
                            }
                            if e == n.data {
                                complete += 1;
                            }
                        }
                    }
                    if all_prefix {
                        self.stats.err_tree_prefix += 1;
                    } else {
                        self.stats.err_tree_other += 1;
                    }
                    if res.outcome == "crash" && complete > 0 && complete < files.len() {
                        self.stats.crash_between_writes += 1;
                    }
                } else {
                    self.stats.err_tree_other += 1;
                }
                if !obstacle {
                    self.needs_recovery = true;
                }
            }
        }
        let fired_keys: Vec<String> = {
            let mut k: Vec<String> = res.fired.iter().filter(|f| !f.benign).map(|f| format!("{}:{}", f.call, f.kind)).collect();
            if res.outcome == "crash" {
                k.push("crash".into());
            }
            k
        };
        for v in step_viol.iter_mut() {
            v.fired = fired_keys.clone();
            v.outcome = res.outcome.clone();
        }
        self.violations.extend(step_viol);
    }

    fn judge_ok(&mut self, step: usize, before: &Tree, after: &Tree, files: &[SrcFile], r: &JobResult, out_rel: &str) -> Vec<Viol> {
        let mut v = vec![];
        let mut expected: BTreeMap<String, Vec<u8>> = BTreeMap::new();
        for (i, f) in files.iter().enumerate() {
            let p = format!("{out_rel}/{}", mirrored(&f.path, &self.layout));
            expected.insert(p, norm(r.outputs.get(i).map(|s| s.as_bytes()).unwrap_or(b"")));
        }
        let mut allowed_dirs: BTreeSet<String> = BTreeSet::new();
        allowed_dirs.insert(out_rel.to_string());
        for p in expected.keys() {
            let mut cur = Path::new(p).parent();
            while let Some(c) = cur {
                let s = c.to_string_lossy().into_owned();
                if s.is_empty() {
                    break;
                }
                allowed_dirs.insert(s);
                cur = c.parent();
            }
        }
        for (p, exp) in &expected {
            match after.get(p) {
                None => v.push(Viol::new("ok_but_tree_differs_missing", step, format!("missing: {p}"))),
                Some(n) if n.dir => v.push(Viol::new("ok_but_tree_differs_content", step, format!("content: {p} is a directory"))),
                Some(n) => {
                    let got = norm(&n.data);
                    if &got != exp {
                        let kind = if got.starts_with(exp) && got.len() > exp.len() {
                            "stale_tail"
                        } else if exp.starts_with(&got) {
                            "content(truncated)"
                        } else {
                            "content"
                        };
                        let cls = if kind == "stale_tail" { "ok_but_tree_differs_stale_tail" } else { "ok_but_tree_differs_content" };
                        v.push(Viol::new(cls, step, format!("{kind}: {p} has {} bytes, expected {}", got.len(), exp.len())));
                    }
                    if let Some(b) = before.get(p) {
                        if !b.dir && b.data.len() > exp.len() {
                            self.stats.overwrote_longer += 1;
                        }
                    }
                }
            }
        }
        for (p, n) in after {
            if expected.contains_key(p) {
                continue;
            }
            match before.get(p) {
                Some(b) if b == n => {}
                Some(_) => v.push(Viol::new("wrote_outside_mirror", step, format!("modified: {p}"))),
                None => {
                    if n.dir && allowed_dirs.contains(p) {
                        continue;
                    }
                    v.push(Viol::new("ok_but_tree_differs_extra", step, format!("extra: {p}")));
                }
            }
        }
        // Deletions: removing the stale output of a source that an earlier version of the
        // project had and the current one has not (deleted or renamed), and a directory that
        // thereby becomes empty, is tolerated — "exactly one .py per .mamba" can be read as
        // cleaning up after deleted sources.  Anything else that disappears is an effect the
        // property excludes: somebody's notes.txt, a hand-written or copied .py, a bystander, a
        // source file, and in particular the output that ANOTHER configuration (directory
        // input vs. single-file input) wrote for a source that still exists.
        let stale_of_deleted: BTreeSet<String> = {
            let current: BTreeSet<&String> = self.version.files.iter().map(|f| &f.path).collect();
            let mut set = BTreeSet::new();
            for rel in self.ever_sources.iter().filter(|r| !current.contains(r)) {
                let as_dir = PathBuf::from(rel).with_extension("py").to_string_lossy().into_owned();
                let as_file = PathBuf::from(Path::new(rel).file_name().unwrap_or_default()).with_extension("py").to_string_lossy().into_owned();
                set.insert(format!("{out_rel}/{as_dir}"));
                set.insert(format!("{out_rel}/{as_file}"));
            }
            // but never what a current source maps to under either kind of input
            for rel in current {
                let as_dir = PathBuf::from(rel).with_extension("py").to_string_lossy().into_owned();
                let as_file = PathBuf::from(Path::new(rel).file_name().unwrap_or_default()).with_extension("py").to_string_lossy().into_owned();
                set.remove(&format!("{out_rel}/{as_dir}"));
                set.remove(&format!("{out_rel}/{as_file}"));
            }
            set
        };
        for (p, n) in before.iter() {
            if !after.contains_key(p) {
                let in_target = p.starts_with(&format!("{out_rel}/"));
                let stale_py = in_target && !n.dir && stale_of_deleted.contains(p);
                let emptied_dir = in_target
                    && n.dir
                    && before.iter().filter(|(q, _)| q.starts_with(&format!("{p}/"))).all(|(q, m)| m.dir || stale_of_deleted.contains(q));
                if stale_py || emptied_dir {
                    self.stats.deleted_in_target_tolerated += 1;
                } else {
                    v.push(Viol::new("wrote_outside_mirror", step, format!("deleted: {p}")));
                }
            }
        }
        v
    }

    fn judge_err(&mut self, step: usize, before: &Tree, after: &Tree, res: &StepResult, out_rel: &str) -> Vec<Viol> {
        let mut v = vec![];
        if res.diags.is_empty() || res.diags.iter().all(|d| d.trim().is_empty()) {
            v.push(Viol::new("diagnostic_wrong_or_missing_file", step, "rejected without any diagnostic".into()));
        }
        for (p, n) in after {
            if p.ends_with(".py") && !n.dir && before.get(p) != Some(n) {
                v.push(Viol::new("compile_error_but_python_written", step, format!("{} {p}", if before.contains_key(p) { "modified" } else { "created" })));
            }
        }
        // all-or-nothing: a rejected project leaves the tree as it was (the empty output
        // directory may be created); nothing is removed either, inside or outside the output
        let _ = out_rel;
        for p in before.keys() {
            if !after.contains_key(p) {
                v.push(Viol::new("compile_error_but_tree_changed", step, format!("deleted: {p}")));
            }
        }
        for (p, n) in after {
            if !n.dir && !p.ends_with(".py") {
                match before.get(p) {
                    Some(b) if b == n => {}
                    Some(_) => v.push(Viol::new("compile_error_but_tree_changed", step, format!("modified: {p}"))),
                    None => v.push(Viol::new("compile_error_but_tree_changed", step, format!("created: {p}"))),
                }
            }
        }
        // the faulty file(s) must be named, and no other project file
        if let Some(fy) = self.version.faulty.clone() {
            let fys: Vec<Faulty> = std::iter::once(fy.clone()).chain(self.version.faulty2.clone()).collect();
            let k = fy.path.clone();
            let in_scope = self.layout.src_file.is_none() || (fys.len() == 1 && self.layout.src_file.as_deref() == Some(k.as_str()));
            // "exactly these files are faulty" means: without the fault lines the project is
            // accepted (and, for two, each fault alone already makes it rejected)
            let mut base_files = input_files(&self.version, &self.layout);
            let mut is_single = true;
            for f_ in &fys {
                match base_files.iter_mut().find(|f| f.path == f_.path) {
                    Some(f) => {
                        let stripped = if f_.at_top { f.text.strip_prefix(&f_.line).map(|s| s.to_string()) } else { f.text.strip_suffix(&f_.line).map(|s| s.to_string()) };
                        match stripped {
                            Some(t) => f.text = t,
                            None => is_single = false,
                        }
                    }
                    None => is_single = false,
                }
            }
            if is_single {
                let rb = reference(&base_files, self.annotate, &mut self.refs, &mut self.stats);
                is_single = rb.verdict == "ok";
            }
            if is_single && fys.len() == 2 {
                for f_ in &fys {
                    let mut one = base_files.clone();
                    if let Some(f) = one.iter_mut().find(|f| f.path == f_.path) {
                        f.text = if f_.at_top { format!("{}{}", f_.line, f.text) } else { format!("{}{}", f.text, f_.line) };
                    }
                    let r1 = reference(&one, self.annotate, &mut self.refs, &mut self.stats);
                    if r1.verdict != "err" {
                        is_single = false;
                    }
                }
            }
            if in_scope && !is_single {
                self.stats.fault_not_faulty += 1;
            }
            if in_scope && is_single {
                self.stats.single_faulty_rejected += 1;
                self.stats.diag_file_checks += 1;
                // (a name that is not UTF-8 is displayed with U+FFFD; the scenario writes U+F8FF)
                let ndiags: Vec<String> = res.diags.iter().map(|d| d.replace('\u{FFFD}', &BAD_BYTE.to_string())).collect();
                let locs = diag_locations(&ndiags);
                // which project file does a location name: the one with the longest relative
                // path that is a suffix of the location at a path-component boundary
                // (only the files that are input of this run: with a single file as input the
                // tool shows the bare file name, and other project files are not part of the run)
                let all_paths: Vec<String> = input_files(&self.version, &self.layout).iter().map(|f| f.path.clone()).collect();
                // the tool shows `<last component of the source directory>/<relative path>` (the bare
                // file name when a single file is the input): an exact match on that decides;
                // otherwise the longest relative path that is a suffix of the location
                let src_last = {
                    let n = src_dir_name(&self.layout);
                    if n == "." { self.root_name.clone() } else { n.rsplit('/').next().unwrap_or("").to_string() }
                };
                let single = self.layout.src_file.is_some();
                let disp = |p: &str| -> String {
                    if single { Path::new(p).file_name().map(|s| s.to_string_lossy().into_owned()).unwrap_or_default() } else { format!("{src_last}/{p}") }
                };
                let named = |loc: &str| -> Option<String> {
                    if let Some(p) = all_paths.iter().find(|p| disp(p) == loc) {
                        return Some(p.clone());
                    }
                    all_paths
                        .iter()
                        .filter(|p| loc == p.as_str() || loc.ends_with(&format!("/{p}")))
                        .max_by_key(|p| p.len())
                        .cloned()
                };
                let base = |p: &str| Path::new(p).file_name().map(|s| s.to_string_lossy().into_owned()).unwrap_or_default();
                let kb = base(&k);
                let unique_base = all_paths.iter().filter(|p| base(p) == kb).count() == 1;
                if !unique_base {
                    self.stats.same_base_name_checks += 1;
                }
                let kind = if fys.len() == 2 { format!("two:{}", self.version.note.split(':').nth(1).unwrap_or("?")) } else { self.version.note.split(':').nth(1).unwrap_or("?").to_string() };
                *self.stats.faulty_kinds_checked.entry(kind).or_insert(0) += 1;
                let faulty_paths: Vec<String> = fys.iter().map(|f| f.path.clone()).collect();
                for k in &faulty_paths {
                    let kb = base(k);
                    let unique_base = all_paths.iter().filter(|p| base(p) == kb).count() == 1;
                    // an undecodable source is reported by the reader, with the path it opened
                    let by_reader = fys.iter().any(|f| f.line.contains(BAD_BYTE)) && ndiags.iter().any(|d| d.replace("/./", "/").contains(&format!("{src_last}/{k}")));
                    let names_k = by_reader
                        || locs.iter().any(|l| named(l).as_deref() == Some(k.as_str()))
                        || (unique_base && (locs.iter().any(|l| base(l) == kb) || ndiags.iter().any(|d| d.contains(&kb))));
                    if !names_k {
                        v.push(Viol::new(
                            "diagnostic_wrong_or_missing_file",
                            step,
                            format!("no diagnostic names the faulty file {k}{}; locations: {:?}", if faulty_paths.len() > 1 { " (one of two faulty files)" } else { "" }, locs),
                        ));
                    }
                }
                for l in &locs {
                    if let Some(other) = named(l) {
                        if !faulty_paths.contains(&other) {
                            v.push(Viol::new("diagnostic_wrong_or_missing_file", step, format!("a diagnostic points into {other} although only {:?} is faulty", faulty_paths)));
                            break;
                        }
                    }
                }
            }
        }
        v
    }

    // ---------------------------------------------------------------- relations (pure API)

    pub fn check_relations(&mut self, sc: &C13Scenario) {
        for rel in &sc.relations {
            match rel {
                Rel::Order { op, perms } => {
                    let files = match sc.history.get(*op) {
                        Some(Op::Project { files, .. }) => {
                            let mut f = files.clone();
                            f.sort_by(|a, b| a.path.cmp(&b.path));
                            f
                        }
                        _ => continue,
                    };
                    let base = reference(&files, sc.annotate, &mut self.refs, &mut self.stats);
                    if base.verdict == "panic" || base.verdict.starts_with("abort") {
                        *self.stats.relation_skipped.entry("order".into()).or_insert(0) += 1;
                        continue;
                    }
                    for perm in perms {
                        if perm.len() != files.len() {
                            continue;
                        }
                        let pf: Vec<SrcFile> = perm.iter().map(|&i| files[i].clone()).collect();
                        let r = reference(&pf, sc.annotate, &mut self.refs, &mut self.stats);
                        *self.stats.relation_checks.entry("order".into()).or_insert(0) += 1;
                        if r.verdict != base.verdict {
                            self.violations.push(Viol::new("order_dependence", *op, format!("verdict {} in order {:?} but {} in sorted order", r.verdict, perm, base.verdict)));
                        } else if r.verdict == "ok" {
                            for (k, &i) in perm.iter().enumerate() {
                                if r.outputs.get(k) != base.outputs.get(i) {
                                    self.violations.push(Viol::new("order_dependence", *op, format!("output of {} differs when files are presented in order {:?}", files[i].path, perm)));
                                    break;
                                }
                            }
                        }
                    }
                }
                Rel::Interference { base_op, ext_op } => {
                    let (bf, ef) = match (sc.history.get(*base_op), sc.history.get(*ext_op)) {
                        (Some(Op::Project { files: a, .. }), Some(Op::Project { files: b, .. })) => (a.clone(), b.clone()),
                        _ => continue,
                    };
                    let sortf = |mut f: Vec<SrcFile>| {
                        f.sort_by(|a, b| a.path.cmp(&b.path));
                        f
                    };
                    let (bf, ef) = (sortf(bf), sortf(ef));
                    let added: Vec<SrcFile> = ef.iter().filter(|f| !bf.iter().any(|b| b.text == f.text)).cloned().collect();
                    let rb = reference(&bf, sc.annotate, &mut self.refs, &mut self.stats);
                    let ra = reference(&added, sc.annotate, &mut self.refs, &mut self.stats);
                    if ra.verdict != "ok" || rb.verdict == "panic" || rb.verdict.starts_with("abort") {
                        // the added file is not valid by itself: the relation says nothing
                        *self.stats.relation_skipped.entry("interference".into()).or_insert(0) += 1;
                        continue;
                    }
                    let re = reference(&ef, sc.annotate, &mut self.refs, &mut self.stats);
                    *self.stats.relation_checks.entry("interference".into()).or_insert(0) += 1;
                    if re.verdict != rb.verdict {
                        self.violations.push(Viol::new("interference", *ext_op, format!("verdict {} becomes {} when an unrelated valid file is added", rb.verdict, re.verdict)));
                    } else if rb.verdict == "ok" {
                        for (i, f) in bf.iter().enumerate() {
                            let j = ef.iter().position(|e| e.text == f.text);
                            if let Some(j) = j {
                                if rb.outputs.get(i) != re.outputs.get(j) {
                                    self.violations.push(Viol::new("interference", *ext_op, format!("output of {} changes when an unrelated file is added", f.path)));
                                    break;
                                }
                            }
                        }
                    }
                }
                Rel::SameTexts { op_a, op_b } => {
                    let (a, b) = match (sc.history.get(*op_a), sc.history.get(*op_b)) {
                        (Some(Op::Project { files: a, .. }), Some(Op::Project { files: b, .. })) => (a.clone(), b.clone()),
                        _ => continue,
                    };
                    let sortf = |mut f: Vec<SrcFile>| {
                        f.sort_by(|a, b| a.path.cmp(&b.path));
                        f
                    };
                    let (a, b) = (sortf(a), sortf(b));
                    let ra = reference(&a, sc.annotate, &mut self.refs, &mut self.stats);
                    let rb = reference(&b, sc.annotate, &mut self.refs, &mut self.stats);
                    *self.stats.relation_checks.entry("same_texts".into()).or_insert(0) += 1;
                    let abn = |r: &JobResult| r.verdict == "panic" || r.verdict.starts_with("abort");
                    if abn(&ra) || abn(&rb) {
                        continue;
                    }
                    if ra.verdict != rb.verdict {
                        self.violations.push(Viol::new("order_dependence", *op_b, format!("verdict {} becomes {} when the same files are renamed into another order", ra.verdict, rb.verdict)));
                    } else if ra.verdict == "ok" {
                        for (i, f) in a.iter().enumerate() {
                            if let Some(j) = b.iter().position(|e| e.text == f.text) {
                                if ra.outputs.get(i) != rb.outputs.get(j) {
                                    self.violations.push(Viol::new("order_dependence", *op_b, format!("output of {} (renamed {}) differs when the files are presented in another order", f.path, b[j].path)));
                                    break;
                                }
                            }
                        }
                    }
                }
                Rel::Visibility { lib, user_body, k_block, use_line, lib_without_def } => {
                    let abn = |r: &JobResult| r.verdict == "panic" || r.verdict.starts_with("abort");
                    let user = SrcFile { path: user_body.path.clone(), text: format!("{}{}", user_body.text, use_line) };
                    let local = SrcFile { path: user_body.path.clone(), text: format!("{}\n{}\n{}", user_body.text, k_block, use_line) };
                    let p1 = reference(&[lib.clone()], sc.annotate, &mut self.refs, &mut self.stats);
                    let p3 = reference(&[local], sc.annotate, &mut self.refs, &mut self.stats);
                    if p1.verdict != "ok" || p3.verdict != "ok" {
                        *self.stats.relation_skipped.entry("visibility".into()).or_insert(0) += 1;
                        continue;
                    }
                    for (label, files) in [("lib first", vec![lib.clone(), user.clone()]), ("user first", vec![user.clone(), lib.clone()])] {
                        let two = reference(&files, sc.annotate, &mut self.refs, &mut self.stats);
                        if abn(&two) {
                            continue;
                        }
                        *self.stats.relation_checks.entry("visibility".into()).or_insert(0) += 1;
                        if two.verdict != "ok" {
                            self.violations.push(Viol::new("cross_file_invisible", 0, format!(
                                    "{label}: project rejected ({}) although the definition is in the other file and the same use is accepted when the definition is local",
                                    two.diags.first().map(|d| d.lines().next().unwrap_or("").to_string()).unwrap_or_default()
                                )));
                        }
                    }
                    // negative controls: without the definition the use must be rejected
                    let alone = reference(&[user.clone()], sc.annotate, &mut self.refs, &mut self.stats);
                    let neg = reference(&[lib_without_def.clone(), user.clone()], sc.annotate, &mut self.refs, &mut self.stats);
                    *self.stats.relation_checks.entry("visibility_negative_control".into()).or_insert(0) += 1;
                    if alone.verdict == "ok" || neg.verdict == "ok" {
                        self.violations.push(Viol::new("cross_file_invisible", 0, "the use of a class that is defined nowhere is accepted (uses are not checked against the shared context)".into()));
                    }
                }
            }
        }
    }
}

/// resolve `.`, `..` and repeated / trailing slashes lexically
pub fn lexical_norm(p: &str) -> String {
    let mut parts: Vec<&str> = vec![];
    for c in p.split('/') {
        match c {
            "" | "." => {}
            ".." => {
                parts.pop();
            }
            x => parts.push(x),
        }
    }
    let lead = if p.starts_with('/') { "/" } else { "" };
    format!("{lead}{}", parts.join("/"))
}

pub fn is_benign(p: &PlanItem) -> bool {
    matches!(
        (p.call.as_str(), p.kind.as_str()),
        ("read", "short") | ("read", "eintr") | ("read_stub", "short") | ("read_stub", "eintr") | ("open_r", "eintr") | ("open_stub", "eintr") | ("open_w", "eintr")
    )
}

pub struct HistOutcome {
    pub violations: Vec<Viol>,
    pub stats: Stats,
}

/// Execute a fixed scenario from a fresh tree.
pub fn run_history(sc: &C13Scenario, scratch: &str) -> HistOutcome {
    let mut h = HistExec::new(scratch, sc);
    for (i, op) in sc.history.iter().enumerate() {
        h.apply(i, op);
    }
    h.check_relations(sc);
    h.cleanup();
    HistOutcome { violations: h.violations, stats: h.stats }
}

pub fn replay(sc: &C13Scenario, scratch: &str) -> Option<String> {
    let out = run_history(sc, scratch);
    let want = sc.expect.as_ref().map(|e| e.class.clone()).unwrap_or_default();
    out.violations.iter().find(|v| want.is_empty() || v.class.starts_with(&want)).map(|v| format!("{} at op {}: {}", v.class, v.step, v.detail))
}

pub fn mamba_bin_available() -> bool {
    std::env::var("MSIM_MAMBA_BIN").map(|b| Path::new(&b).exists()).unwrap_or(false)
}

#[allow(dead_code)]
pub fn exe_path() -> PathBuf {
    exe()
}
