//! Scenario files.  A scenario is fully explicit: it — not the seed it was derived from —
//! is what gets executed, logged, minimised and replayed.

use crate::simlibc::{Fired, PlanItem};
use serde::{Deserialize, Serialize};
use std::collections::BTreeMap;

#[derive(Clone, Debug, Serialize, Deserialize, PartialEq, Eq)]
pub struct SrcFile {
    pub path: String,
    pub text: String,
}

#[derive(Clone, Debug, Serialize, Deserialize, PartialEq, Eq)]
pub struct Program {
    pub files: Vec<SrcFile>,
    pub annotate: bool,
    #[serde(default)]
    pub features: Vec<String>,
    #[serde(default)]
    pub label: String,
    /// how display paths are given to mamba_to_python: "" = distinct paths, "none" = no paths,
    /// "same" = the same path for every source (the API allows all three)
    #[serde(default)]
    pub path_mode: String,
}

#[derive(Clone, Debug, Serialize, Deserialize, PartialEq, Eq)]
pub struct ThreadCfg {
    pub hash_seed: u64,
    pub readdir_seed: u64,
}

#[derive(Clone, Debug, Serialize, Deserialize, PartialEq, Eq)]
pub struct Job {
    pub thread: usize,
    pub program: usize,
    #[serde(default)]
    pub measured: bool,
    /// benign perturbations of this job's stub reads
    #[serde(default)]
    pub perturb: Vec<PlanItem>,
}

/// Jobs of one round run "concurrently": real threads, released one at a time at
/// intercepted libc calls by the seeded interleaving scheduler.  A round with one job is
/// run to completion.
#[derive(Clone, Debug, Serialize, Deserialize, PartialEq, Eq)]
pub struct Round {
    pub jobs: Vec<Job>,
    #[serde(default)]
    pub interleave_seed: u64,
    /// probability (per 1000) of switching thread at a scheduling point
    #[serde(default)]
    pub switch_permille: u32,
}

#[derive(Clone, Debug, Serialize, Deserialize, PartialEq, Eq)]
pub struct Expect {
    pub class: String,
    #[serde(default)]
    pub detail: String,
}

#[derive(Clone, Debug, Serialize, Deserialize, PartialEq, Eq)]
pub struct C12Scenario {
    pub property: String,
    pub seed: u64,
    pub index: u64,
    pub programs: Vec<Program>,
    pub threads: Vec<ThreadCfg>,
    #[serde(default)]
    pub env: BTreeMap<String, String>,
    #[serde(default)]
    pub cwd: String,
    pub clock: i64,
    /// simulated nanoseconds per clock reading (0: time stands still) and apparent CPU count
    #[serde(default)]
    pub clock_step_ns: i64,
    #[serde(default)]
    pub cpus: u32,
    /// the temp directory the environment names (TMPDIR, TMP, TEMP) does not exist
    #[serde(default)]
    pub tmp_missing: bool,
    /// != 0: environment variables the process does not have may appear to be set (per name)
    #[serde(default)]
    pub env_fuzz: u64,
    pub pid: i32,
    pub schedule: Vec<Round>,
    #[serde(default)]
    pub expect: Option<Expect>,
}

#[derive(Clone, Debug, Serialize, Deserialize, Default)]
pub struct JobResult {
    pub round: usize,
    pub thread: usize,
    pub program: usize,
    pub measured: bool,
    /// ok | err | panic
    pub verdict: String,
    pub outputs: Vec<String>,
    pub diags: Vec<String>,
    pub panic_msg: String,
    /// fingerprint of the iteration order of a canary set built on the job's thread at job start
    pub canary: String,
    pub calls: u64,
    /// scheduling points from log statements of the code under test
    #[serde(default)]
    pub log_points: u64,
    pub log_digest: String,
    pub clock_calls: u32,
    pub pid_calls: u32,
    pub cwd_calls: u32,
    #[serde(default)]
    pub cpu_calls: u32,
    pub getrandom_calls: u32,
    pub foreign_writes: u32,
    pub write_set: Vec<(String, String)>,
    pub fired: Vec<Fired>,
    #[serde(default)]
    pub log: Vec<String>,
    /// environment variables the job asked for
    #[serde(default)]
    pub env_reads: Vec<String>,
    /// number of times the interleaving scheduler switched away from this job
    pub preemptions: u32,
}

#[derive(Clone, Debug, Serialize, Deserialize, Default)]
pub struct JobsResult {
    pub jobs: Vec<JobResult>,
    /// global order in which (round, job index) slices ran, as decided by the scheduler
    pub interleaving_digest: String,
    pub switches: u64,
    /// threads the code under test created itself (held and released by the simulator)
    #[serde(default)]
    pub lib_threads: u64,
}

// ------------------------------------------------------------------------------ C13

#[derive(Clone, Debug, Serialize, Deserialize, PartialEq, Eq)]
pub struct StepSpec {
    /// real path of the scratch root (rewritten to $ROOT in every log)
    pub root: String,
    /// project directory, relative to root
    pub dir: String,
    pub src: Option<String>,
    pub target: Option<String>,
    pub annotate: bool,
    pub hash_seed: u64,
    pub readdir_seed: u64,
    #[serde(default)]
    pub plan: Vec<PlanItem>,
    #[serde(default)]
    pub crash_at: Option<u64>,
    #[serde(default)]
    pub disk_budget: Option<i64>,
    #[serde(default)]
    pub clock: i64,
    #[serde(default)]
    pub pid: i32,
    #[serde(default)]
    pub keep_log: bool,
}

#[derive(Clone, Debug, Serialize, Deserialize, Default)]
pub struct StepResult {
    /// ok | err | panic | crash | abort
    pub outcome: String,
    pub ok_path: String,
    pub diags: Vec<String>,
    pub panic_msg: String,
    pub write_set: Vec<(String, String)>,
    pub fired: Vec<Fired>,
    pub counters: BTreeMap<String, u32>,
    pub calls: u64,
    pub log_digest: String,
    #[serde(default)]
    pub log: Vec<String>,
    /// call sequence number of each log line
    #[serde(default)]
    pub log_seq: Vec<u64>,
    pub clock_calls: u32,
    pub pid_calls: u32,
    pub cwd_calls: u32,
    pub foreign_writes: u32,
    pub bytes_written: u64,
}
