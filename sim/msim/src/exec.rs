//! Executors: the only code that calls into `mamba`.  Each executor is a fresh child
//! process of the driver.
//!
//! `exec-jobs`: several simulated threads, several `mamba_to_python` jobs, one address
//! space (C12).  `exec-step`: one `transpile_dir` call against a scratch tree (C13).

use crate::scen::*;
use crate::simlibc::{self, Ctx};
use crate::util::{digest_strs, Rng};
use std::cell::{Cell, RefCell};
use std::collections::HashSet;
use std::panic::{catch_unwind, AssertUnwindSafe};
use std::path::PathBuf;
use std::sync::{Arc, Condvar, Mutex};

pub fn stub_dir() -> String {
    std::env::var("MSIM_STUB_DIR").unwrap_or_else(|_| "/repo/src/check/resource".to_string())
}

thread_local! {
    static ME: Cell<usize> = const { Cell::new(usize::MAX) };
    static PANIC_MSG: RefCell<String> = const { RefCell::new(String::new()) };
}

fn install_panic_hook() {
    std::panic::set_hook(Box::new(|info| {
        let s = info.to_string();
        PANIC_MSG.with(|m| *m.borrow_mut() = s);
    }));
}

struct SchedState {
    running: Option<usize>,
    runnable: Vec<usize>,
    ctxs: Vec<usize>, // *mut Ctx per thread, 0 when the thread has no job
    pending: Vec<Option<(usize, Job, Program)>>,
    results: Vec<JobResult>,
    entropy: Vec<u64>,
    rng: Rng,
    switch_permille: u32,
    trace: Vec<String>,
    switches: u64,
    preempt: Vec<u32>,
    shutdown: bool,
    round: usize,
    /// kernel thread ids of the simulated threads (for the blocked-thread watchdog)
    tids: Vec<i64>,
    /// threads found blocked in a synchronisation primitive the simulator does not own
    blocked: Vec<bool>,
    /// incremented at every scheduling point and job completion
    progress: u64,
    foreign_blocks: u64,
    lib_threads_created: u64,
    lib_threads_finished: u64,
    lib_rng: Rng,
}

struct Sched {
    m: Mutex<SchedState>,
    cv: Condvar,
}

static SCHED: std::sync::OnceLock<Arc<Sched>> = std::sync::OnceLock::new();

/// Called from every override inside a context, before the call is performed.
fn sched_hook() {
    let me = ME.with(|m| m.get());
    if me == usize::MAX {
        return;
    }
    let s = match SCHED.get() {
        Some(s) => s,
        None => return,
    };
    let mut st = s.m.lock().unwrap();
    st.progress += 1;
    if st.running != Some(me) {
        // this thread had been found blocked in a primitive the simulator does not own and
        // another one was released meanwhile: it is runnable again, wait for its turn
        st.blocked[me] = false;
        s.cv.notify_all();
        while st.running != Some(me) {
            st = s.cv.wait(st).unwrap();
        }
        return;
    }
    if st.runnable.len() <= 1 || st.switch_permille == 0 {
        return;
    }
    if st.rng.below(1000) >= st.switch_permille as u64 {
        return;
    }
    let others: Vec<usize> = st.runnable.iter().cloned().filter(|&t| t != me && !st.blocked[t]).collect();
    if others.is_empty() {
        return;
    }
    let n = others[st.rng.below(others.len() as u64) as usize];
    st.running = Some(n);
    simlibc::set_current(st.ctxs[n] as *mut Ctx);
    st.trace.push(format!("{me}>{n}"));
    st.switches += 1;
    st.preempt[me] += 1;
    s.cv.notify_all();
    while st.running != Some(me) {
        st = s.cv.wait(st).unwrap();
    }
}

/// 'R', 'S', 'D', ... of a kernel thread of this process (raw syscalls: no override involved)
fn read_proc(tid: i64, what: &str) -> Vec<u8> {
    let path = format!("/proc/self/task/{tid}/{what}\0");
    let fd = unsafe { libc::syscall(libc::SYS_openat, libc::AT_FDCWD as libc::c_long, path.as_ptr(), libc::O_RDONLY as libc::c_long, 0 as libc::c_long) };
    if fd < 0 {
        return vec![];
    }
    let mut buf = [0u8; 512];
    let n = unsafe { libc::syscall(libc::SYS_read, fd, buf.as_mut_ptr(), buf.len()) };
    unsafe { libc::syscall(libc::SYS_close, fd) };
    if n <= 0 {
        return vec![];
    }
    buf[..n as usize].to_vec()
}

/// Is this kernel thread asleep inside a blocking system call (futex wait, sleep, poll, wait)?
/// A thread that computes shows "running" in /proc/<tid>/syscall, whatever the load.
fn thread_blocked_in_syscall(tid: i64) -> bool {
    let stat = read_proc(tid, "stat");
    let state = match stat.iter().rposition(|&b| b == b')') {
        Some(i) if i + 2 < stat.len() => stat[i + 2],
        _ => b'?',
    };
    if state != b'S' {
        return false;
    }
    let sc = read_proc(tid, "syscall");
    let text = String::from_utf8_lossy(&sc).into_owned();
    let nr: i64 = match text.split_whitespace().next().and_then(|t| t.parse().ok()) {
        Some(n) => n,
        None => return false, // "running" or unreadable
    };
    // futex, nanosleep, clock_nanosleep, poll, ppoll, select, pselect6, epoll_wait, epoll_pwait, wait4, waitid, pause
    [202, 35, 230, 7, 271, 23, 270, 232, 281, 61, 247, 34].contains(&nr)
}

// ---------------------------------------------------------------------------------------
// threads the code under test creates itself
//
// The library creates no threads today.  A change that makes it (a thread per file, a helper
// pool) must not escape the simulator: `pthread_create` from inside a job is intercepted, the
// new thread is held at a gate, and it is released — one at a time, in an order decided by the
// scenario's seed — when its creator joins it or when the watchdog finds the job's running
// thread asleep (e.g. at the end of a thread scope).  Completion order of such threads is
// therefore a function of the seed, and replays.
// ---------------------------------------------------------------------------------------

struct LibThread {
    owner: usize,
    ordinal: u32,
    gate: Mutex<bool>,
    gate_cv: Condvar,
    released: std::sync::atomic::AtomicBool,
    done: std::sync::atomic::AtomicBool,
    tid: std::sync::atomic::AtomicI64,
    pthread: std::sync::atomic::AtomicU64,
    start: extern "C" fn(*mut libc::c_void) -> *mut libc::c_void,
    arg: usize,
}

static LIB_THREADS: Mutex<Vec<Arc<LibThread>>> = Mutex::new(Vec::new());

type PthreadCreateFn = unsafe extern "C" fn(*mut libc::pthread_t, *const libc::pthread_attr_t, extern "C" fn(*mut libc::c_void) -> *mut libc::c_void, *mut libc::c_void) -> libc::c_int;
type PthreadJoinFn = unsafe extern "C" fn(libc::pthread_t, *mut *mut libc::c_void) -> libc::c_int;

unsafe fn real_pthread_create() -> PthreadCreateFn {
    std::mem::transmute(libc::dlsym(libc::RTLD_NEXT, b"pthread_create\0".as_ptr() as *const libc::c_char))
}
unsafe fn real_pthread_join() -> PthreadJoinFn {
    std::mem::transmute(libc::dlsym(libc::RTLD_NEXT, b"pthread_join\0".as_ptr() as *const libc::c_char))
}

extern "C" fn lib_thread_wrapper(arg: *mut libc::c_void) -> *mut libc::c_void {
    let lt: Arc<LibThread> = unsafe { Arc::from_raw(arg as *const LibThread) };
    // the new thread acts on behalf of the job that created it
    ME.with(|m| m.set(lt.owner));
    lt.tid.store(unsafe { libc::syscall(libc::SYS_gettid) } as i64, std::sync::atomic::Ordering::SeqCst);
    {
        let mut open = lt.gate.lock().unwrap();
        while !*open {
            open = lt.gate_cv.wait(open).unwrap();
        }
    }
    let r = (lt.start)(lt.arg as *mut libc::c_void);
    lt.done.store(true, std::sync::atomic::Ordering::SeqCst);
    if let Some(s) = SCHED.get() {
        if let Ok(mut st) = s.m.lock() {
            st.progress += 1;
            st.lib_threads_finished += 1;
        }
        s.cv.notify_all();
    }
    r
}

fn release_lib_thread(lt: &LibThread) {
    lt.released.store(true, std::sync::atomic::Ordering::SeqCst);
    let mut open = lt.gate.lock().unwrap();
    *open = true;
    lt.gate_cv.notify_all();
}

#[no_mangle]
pub unsafe extern "C" fn pthread_create(
    thread: *mut libc::pthread_t,
    attr: *const libc::pthread_attr_t,
    start: extern "C" fn(*mut libc::c_void) -> *mut libc::c_void,
    arg: *mut libc::c_void,
) -> libc::c_int {
    let me = ME.with(|m| m.get());
    if me == usize::MAX || simlibc::current().is_null() {
        return real_pthread_create()(thread, attr, start, arg);
    }
    let ordinal = {
        let reg = LIB_THREADS.lock().unwrap();
        reg.iter().filter(|l| l.owner == me).count() as u32
    };
    let lt = Arc::new(LibThread {
        owner: me,
        ordinal,
        gate: Mutex::new(false),
        gate_cv: Condvar::new(),
        released: std::sync::atomic::AtomicBool::new(false),
        done: std::sync::atomic::AtomicBool::new(false),
        tid: std::sync::atomic::AtomicI64::new(0),
        pthread: std::sync::atomic::AtomicU64::new(0),
        start,
        arg: arg as usize,
    });
    let raw = Arc::into_raw(lt.clone()) as *mut libc::c_void;
    let r = real_pthread_create()(thread, attr, lib_thread_wrapper, raw);
    if r != 0 {
        drop(Arc::from_raw(raw as *const LibThread));
        return r;
    }
    lt.pthread.store(*thread as u64, std::sync::atomic::Ordering::SeqCst);
    LIB_THREADS.lock().unwrap().push(lt);
    if let Some(s) = SCHED.get() {
        if let Ok(mut st) = s.m.lock() {
            st.lib_threads_created += 1;
        }
    }
    r
}

#[no_mangle]
pub unsafe extern "C" fn pthread_join(thread: libc::pthread_t, retval: *mut *mut libc::c_void) -> libc::c_int {
    // joining a held thread releases it (the creator sleeps in the join meanwhile)
    let held: Option<Arc<LibThread>> = {
        let reg = LIB_THREADS.lock().unwrap();
        reg.iter().find(|l| l.pthread.load(std::sync::atomic::Ordering::SeqCst) == thread as u64 && !l.released.load(std::sync::atomic::Ordering::SeqCst)).cloned()
    };
    if let Some(lt) = held {
        release_lib_thread(&lt);
    }
    real_pthread_join()(thread, retval)
}

fn canary_fingerprint() -> String {
    let mut set: HashSet<u32> = HashSet::new();
    for i in 0..24u32 {
        set.insert(i.wrapping_mul(2654435761));
    }
    let order: Vec<String> = set.iter().map(|v| v.to_string()).collect();
    digest_strs(&order)[..16].to_string()
}

/// The same input through `transpile_dir`: a private project directory per job (below the
/// executor's private directory), sources written and outputs read back by the harness
/// outside the simulation; what `transpile_dir` itself does goes through the overrides and the
/// interleaving scheduler like everything else.
fn run_program_dir(p: &Program, tag: &str) -> (String, Vec<String>, Vec<String>, String) {
    simlibc::set_bypass(true);
    let base = std::env::var("MSIM_PRIVATE").unwrap_or_else(|_| std::env::temp_dir().to_string_lossy().into_owned());
    let dir = format!("{base}/jobs/{tag}");
    let _ = std::fs::remove_dir_all(&dir);
    for f in &p.files {
        let fp = PathBuf::from(&dir).join("src").join(&f.path);
        if let Some(parent) = fp.parent() {
            let _ = std::fs::create_dir_all(parent);
        }
        let _ = std::fs::write(&fp, f.text.as_bytes());
    }
    simlibc::set_bypass(false);
    let args = mamba::Arguments { annotate: p.annotate };
    PANIC_MSG.with(|m| m.borrow_mut().clear());
    let r = catch_unwind(AssertUnwindSafe(|| mamba::transpile_dir(std::path::Path::new(&dir), None, None, &args)));
    simlibc::set_bypass(true);
    let res = match r {
        Ok(Ok(_)) => {
            let outs = p
                .files
                .iter()
                .map(|f| std::fs::read_to_string(PathBuf::from(&dir).join("target").join(&f.path).with_extension("py")).unwrap_or_else(|e| format!("<output missing: {e}>")))
                .collect();
            ("ok".to_string(), outs, vec![], String::new())
        }
        Ok(Err(diags)) => ("err".to_string(), vec![], diags.iter().map(|d| d.replace(&dir, "$JOB")).collect(), String::new()),
        Err(_) => ("panic".to_string(), vec![], vec![], PANIC_MSG.with(|m| m.borrow().clone())),
    };
    let _ = std::fs::remove_dir_all(&dir);
    simlibc::set_bypass(false);
    res
}

fn run_program(p: &Program, tag: &str) -> (String, Vec<String>, Vec<String>, String) {
    if p.path_mode == "dir" {
        return run_program_dir(p, tag);
    }
    let src_dir = PathBuf::from("/proj/src");
    let sources: Vec<(String, Option<PathBuf>)> = p
        .files
        .iter()
        .map(|f| {
            let path = match p.path_mode.as_str() {
                "none" => None,
                "same" => Some(src_dir.join("module.mamba")),
                _ => Some(src_dir.join(&f.path)),
            };
            (f.text.clone(), path)
        })
        .collect();
    let args = mamba::PipelineArguments { annotate: p.annotate };
    PANIC_MSG.with(|m| m.borrow_mut().clear());
    let r = catch_unwind(AssertUnwindSafe(|| mamba::mamba_to_python(&sources, &src_dir, &args)));
    match r {
        Ok(Ok(outs)) => ("ok".into(), outs, vec![], String::new()),
        Ok(Err(diags)) => ("err".into(), vec![], diags, String::new()),
        Err(_) => ("panic".into(), vec![], vec![], PANIC_MSG.with(|m| m.borrow().clone())),
    }
}

fn sim_thread(t: usize, s: Arc<Sched>, keep_log: bool) {
    ME.with(|m| m.set(t));
    {
        let tid = unsafe { libc::syscall(libc::SYS_gettid) } as i64;
        s.m.lock().unwrap().tids[t] = tid;
    }
    loop {
        let (round, job, program) = {
            let mut st = s.m.lock().unwrap();
            loop {
                if st.shutdown {
                    return;
                }
                if st.running == Some(t) && st.pending[t].is_some() {
                    break;
                }
                st = s.cv.wait(st).unwrap();
            }
            st.pending[t].take().unwrap()
        };
        // ---- in context from here (CURRENT was set by whoever made us runnable)
        let canary = canary_fingerprint();
        let (verdict, outputs, diags, panic_msg) = run_program(&program, &format!("r{round}t{t}"));
        // ---- hand over
        let mut st = s.m.lock().unwrap();
        let ctxp = st.ctxs[t] as *mut Ctx;
        let ctx = unsafe { Box::from_raw(ctxp) };
        st.entropy[t] = ctx.entropy;
        let res = JobResult {
            round,
            thread: t,
            program: job.program,
            measured: job.measured,
            verdict,
            outputs,
            diags,
            panic_msg,
            canary,
            calls: ctx.seq,
            log_points: ctx.log_points,
            log_digest: digest_strs(&ctx.log),
            clock_calls: ctx.clock_calls,
            pid_calls: ctx.pid_calls,
            cwd_calls: ctx.cwd_calls,
            cpu_calls: ctx.cpu_calls,
            getrandom_calls: ctx.getrandom_calls,
            foreign_writes: ctx.foreign_writes,
            write_set: ctx.write_set.clone(),
            fired: ctx.fired.clone(),
            log: if keep_log { ctx.log.clone() } else { vec![] },
            env_reads: ctx.env_reads.clone(),
            preemptions: st.preempt[t],
        };
        st.results.push(res);
        st.progress += 1;
        {
            let mut reg = LIB_THREADS.lock().unwrap();
            for l in reg.iter().filter(|l| l.owner == t && !l.released.load(std::sync::atomic::Ordering::SeqCst)) {
                release_lib_thread(l);
            }
            reg.retain(|l| l.owner != t);
        }
        st.ctxs[t] = 0;
        st.runnable.retain(|&x| x != t);
        if st.running == Some(t) {
            if st.runnable.is_empty() {
                st.running = None;
                simlibc::set_current(std::ptr::null_mut());
            } else {
                // a thread blocked on this job may be runnable again now: all are candidates
                for b in st.blocked.iter_mut() {
                    *b = false;
                }
                let k = st.runnable.len() as u64;
                let i = st.rng.below(k) as usize;
                let n = st.runnable[i];
                st.running = Some(n);
                simlibc::set_current(st.ctxs[n] as *mut Ctx);
                st.trace.push(format!("{t}.>{n}"));
            }
        }
        drop(ctx);
        s.cv.notify_all();
    }
}

/// The library logs through the `log` facade (trace!/info! in the unifier, the constraint
/// builder, between the stages).  The executor installs a sink that prints nothing and makes
/// every log statement a scheduling point: the interleaving scheduler can then switch threads
/// in the middle of type checking, not only at libc calls.
struct SchedLogger;

impl log::Log for SchedLogger {
    fn enabled(&self, _: &log::Metadata) -> bool {
        true
    }
    fn log(&self, _: &log::Record) {
        simlibc::sched_point();
    }
    fn flush(&self) {}
}

static SCHED_LOGGER: SchedLogger = SchedLogger;

pub fn exec_jobs(sc: &C12Scenario, keep_log: bool) -> JobsResult {
    install_panic_hook();
    simlibc::set_bypass(true);
    if log::set_logger(&SCHED_LOGGER).is_ok() {
        log::set_max_level(log::LevelFilter::Trace);
    }
    let stub = stub_dir();
    let nthreads = sc.threads.len();
    let sched = Arc::new(Sched {
        m: Mutex::new(SchedState {
            running: None,
            runnable: vec![],
            ctxs: vec![0; nthreads],
            pending: (0..nthreads).map(|_| None).collect(),
            results: vec![],
            entropy: sc.threads.iter().map(|t| t.hash_seed).collect(),
            rng: Rng::new(0),
            switch_permille: 0,
            trace: vec![],
            switches: 0,
            preempt: vec![0; nthreads],
            shutdown: false,
            round: 0,
            tids: vec![0; nthreads],
            blocked: vec![false; nthreads],
            progress: 0,
            foreign_blocks: 0,
            lib_threads_created: 0,
            lib_threads_finished: 0,
            lib_rng: Rng::new(0),
        }),
        cv: Condvar::new(),
    });
    let _ = SCHED.set(sched.clone());
    simlibc::SCHED_HOOK.store(sched_hook as fn() as *mut (), std::sync::atomic::Ordering::SeqCst);
    let mut handles = vec![];
    for t in 0..nthreads {
        let s = sched.clone();
        handles.push(
            std::thread::Builder::new()
                .name(format!("sim{t}"))
                .stack_size(8 << 20)
                .spawn(move || sim_thread(t, s, keep_log))
                .expect("spawn sim thread"),
        );
    }
    for (ri, round) in sc.schedule.iter().enumerate() {
        let mut st = sched.m.lock().unwrap();
        st.round = ri;
        st.rng = Rng::new(round.interleave_seed);
        st.lib_rng = Rng::new(round.jobs.iter().fold(ri as u64, |a, j| a.wrapping_mul(31).wrapping_add(sc.threads[j.thread].hash_seed)));
        st.switch_permille = round.switch_permille;
        st.runnable.clear();
        for p in st.preempt.iter_mut() {
            *p = 0;
        }
        for job in &round.jobs {
            let t = job.thread;
            assert!(st.ctxs[t] == 0, "two jobs of one round on the same thread");
            let mut ctx = Box::new(Ctx::new(&std::env::var("MSIM_PRIVATE").unwrap_or_default(), &stub, st.entropy[t], sc.threads[t].readdir_seed));
            ctx.plan = job.perturb.clone();
            ctx.clock_value = sc.clock;
            ctx.clock_step_ns = sc.clock_step_ns;
            ctx.cpus = sc.cpus;
            ctx.pid_value = sc.pid;
            ctx.env_fuzz = sc.env_fuzz;
            st.ctxs[t] = Box::into_raw(ctx) as usize;
            st.pending[t] = Some((ri, job.clone(), sc.programs[job.program].clone()));
            st.runnable.push(t);
        }
        if st.runnable.is_empty() {
            continue;
        }
        let k = st.runnable.len() as u64;
        let i = if k == 1 { 0 } else { st.rng.below(k) as usize };
        let first = st.runnable[i];
        st.running = Some(first);
        st.trace.push(format!("r{ri}:{first}"));
        simlibc::set_current(st.ctxs[first] as *mut Ctx);
        sched.cv.notify_all();
        // Wait for the round; meanwhile watch for the running thread being blocked in a
        // synchronisation primitive the simulator does not own (the library has none today; a
        // change that adds a lock or a condition variable must not hang the simulation): a
        // thread that sleeps in the kernel while it is the one released cannot reach a
        // scheduling point, so another runnable thread is released in its place.
        let mut last_progress = st.progress;
        let mut sleeping_polls = 0;
        let mut watched: Option<usize> = None;
        while st.running.is_some() {
            let (g, to) = sched.cv.wait_timeout(st, std::time::Duration::from_millis(10)).unwrap();
            st = g;
            if !to.timed_out() {
                continue;
            }
            if st.progress != last_progress {
                last_progress = st.progress;
                sleeping_polls = 0;
                continue;
            }
            if let Some(r) = st.running {
                if watched != Some(r) {
                    watched = Some(r);
                    sleeping_polls = 0;
                }
                // the entity that currently runs on behalf of job r: a released, unfinished
                // thread the job created itself, else the job's own thread
                let (entity_tid, held): (i64, Vec<Arc<LibThread>>) = {
                    let reg = LIB_THREADS.lock().unwrap();
                    let mine: Vec<Arc<LibThread>> = reg.iter().filter(|l| l.owner == r).cloned().collect();
                    let running = mine
                        .iter()
                        .find(|l| l.released.load(std::sync::atomic::Ordering::SeqCst) && !l.done.load(std::sync::atomic::Ordering::SeqCst))
                        .map(|l| l.tid.load(std::sync::atomic::Ordering::SeqCst));
                    let held: Vec<Arc<LibThread>> = mine.into_iter().filter(|l| !l.released.load(std::sync::atomic::Ordering::SeqCst)).collect();
                    (running.unwrap_or(st.tids[r]), held)
                };
                if thread_blocked_in_syscall(entity_tid) {
                    sleeping_polls += 1;
                } else {
                    sleeping_polls = 0;
                }
                if sleeping_polls >= 20 && !held.is_empty() {
                    // the job sleeps (end of a thread scope, a channel receive) while threads it
                    // created are held: release one — in creation order under the canonical hash
                    // seed 0, else a seeded choice
                    sleeping_polls = 0;
                    let canonical = sc.threads[r].hash_seed == 0;
                    let mut sorted = held.clone();
                    sorted.sort_by_key(|l| l.ordinal);
                    let k = if canonical { 0 } else { st.lib_rng.below(sorted.len() as u64) as usize };
                    st.trace.push(format!("{r}:lib{}", sorted[k].ordinal));
                    release_lib_thread(&sorted[k]);
                    continue;
                }
                // 200 ms asleep in a blocking call without reaching a scheduling point; when no
                // other job could run instead (that would be a deadlock verdict) wait 2 s
                let others = st.runnable.iter().any(|&t| t != r && !st.blocked[t]);
                if sleeping_polls >= if others { 20 } else { 200 } {
                    sleeping_polls = 0;
                    if std::env::var("MSIM_DEBUG_BLOCK").is_ok() {
                        let tid = st.tids[r];
                        eprintln!("BLOCKED thread {r} tid {tid} syscall={} stat={}", String::from_utf8_lossy(&read_proc(tid, "syscall")).trim(), String::from_utf8_lossy(&read_proc(tid, "stat")).chars().take(40).collect::<String>());
                    }
                    st.blocked[r] = true;
                    st.foreign_blocks += 1;
                    let cands: Vec<usize> = st.runnable.iter().cloned().filter(|&t| !st.blocked[t]).collect();
                    if cands.is_empty() {
                        // every job of the round is blocked: a deadlock of the code under test
                        st.trace.push("deadlock".into());
                        st.shutdown = true;
                        let results = std::mem::take(&mut st.results);
                        let trace = st.trace.clone();
                        drop(st);
                        simlibc::set_current(std::ptr::null_mut());
                        let mut out = JobsResult { jobs: results, interleaving_digest: digest_strs(&trace), switches: 0, lib_threads: 0 };
                        for job in &round.jobs {
                            if !out.jobs.iter().any(|j| j.round == ri && j.thread == job.thread) {
                                out.jobs.push(JobResult { round: ri, thread: job.thread, program: job.program, measured: job.measured, verdict: "abort:deadlock".into(), ..Default::default() });
                            }
                        }
                        return out;
                    }
                    let i = st.rng.below(cands.len() as u64) as usize;
                    let n = cands[i];
                    st.running = Some(n);
                    simlibc::set_current(st.ctxs[n] as *mut Ctx);
                    st.trace.push(format!("{r}!blocked>{n}"));
                    sched.cv.notify_all();
                }
            }
        }
    }
    let (results, trace, switches, lib_threads) = {
        let mut st = sched.m.lock().unwrap();
        st.shutdown = true;
        sched.cv.notify_all();
        (std::mem::take(&mut st.results), st.trace.clone(), st.switches, st.lib_threads_created)
    };
    for h in handles {
        let _ = h.join();
    }
    simlibc::SCHED_HOOK.store(std::ptr::null_mut(), std::sync::atomic::Ordering::SeqCst);
    // The file system a C12 scenario sees is process-local: whatever the jobs created (the
    // library creates nothing today; a disk cache would) is removed when the process ends, so
    // that state can travel between jobs of one scenario — where the schedule controls and
    // replays it — but never between scenarios.
    {
        let mut created: Vec<(String, String)> = vec![];
        for j in &results {
            for (op, p) in &j.write_set {
                if op == "create" || op == "mkdir" || op == "rename-to" || op == "link-to" || op == "symlink-to" {
                    created.push((op.clone(), p.replace("$STUB", &stub)));
                }
            }
        }
        for (op, p) in created.iter().rev() {
            if op == "mkdir" {
                let _ = std::fs::remove_dir(p);
            } else {
                let _ = std::fs::remove_file(p);
            }
        }
    }
    JobsResult { jobs: results, interleaving_digest: digest_strs(&trace), switches, lib_threads }
}

// ------------------------------------------------------------------------------ C13

fn crash_record(ctx: &mut Ctx) -> String {
    let r = StepResult {
        outcome: "crash".into(),
        write_set: ctx.write_set.clone(),
        fired: ctx.fired.clone(),
        counters: ctx.counters.clone(),
        calls: ctx.seq,
        log_digest: digest_strs(&ctx.log),
        log: ctx.log.clone(),
        log_seq: ctx.log_seq.clone(),
        clock_calls: ctx.clock_calls,
        pid_calls: ctx.pid_calls,
        cwd_calls: ctx.cwd_calls,
        foreign_writes: ctx.foreign_writes,
        bytes_written: ctx.bytes_written,
        ..Default::default()
    };
    let mut s = serde_json::to_string(&r).unwrap();
    s.push('\n');
    s
}

fn run_one_step(spec: &StepSpec, stub: &str) -> StepResult {
    let mut ctx = Box::new(Ctx::new(&spec.root, stub, spec.hash_seed, spec.readdir_seed));
    ctx.plan = spec.plan.clone();
    ctx.crash_at = spec.crash_at;
    ctx.disk_budget = spec.disk_budget;
    if spec.clock != 0 {
        ctx.clock_value = spec.clock;
    }
    if spec.pid != 0 {
        ctx.pid_value = spec.pid;
    }
    let dir = if spec.dir.is_empty() { PathBuf::from(&spec.root) } else { PathBuf::from(&spec.root).join(&spec.dir) };
    let args = mamba::Arguments { annotate: spec.annotate };
    let ctxp = Box::into_raw(ctx);
    PANIC_MSG.with(|m| m.borrow_mut().clear());
    simlibc::set_current(ctxp);
    let r = catch_unwind(AssertUnwindSafe(|| mamba::transpile_dir(&dir, spec.src.as_deref(), spec.target.as_deref(), &args)));
    simlibc::set_current(std::ptr::null_mut());
    let ctx = unsafe { Box::from_raw(ctxp) };
    let mut res = StepResult {
        write_set: ctx.write_set.clone(),
        fired: ctx.fired.clone(),
        counters: ctx.counters.clone(),
        calls: ctx.seq,
        log_digest: digest_strs(&ctx.log),
        log: if spec.keep_log { ctx.log.clone() } else { vec![] },
        log_seq: if spec.keep_log { ctx.log_seq.clone() } else { vec![] },
        clock_calls: ctx.clock_calls,
        pid_calls: ctx.pid_calls,
        cwd_calls: ctx.cwd_calls,
        foreign_writes: ctx.foreign_writes,
        bytes_written: ctx.bytes_written,
        ..Default::default()
    };
    match r {
        Ok(Ok(p)) => {
            res.outcome = "ok".into();
            res.ok_path = ctx.canon(&p.to_string_lossy());
        }
        Ok(Err(d)) => {
            res.outcome = "err".into();
            res.diags = d.iter().map(|s| s.replace(&spec.root, "$ROOT")).collect();
        }
        Err(_) => {
            res.outcome = "panic".into();
            res.panic_msg = PANIC_MSG.with(|m| m.borrow().clone());
        }
    }
    res
}

pub fn exec_step(spec: &StepSpec) -> StepResult {
    install_panic_hook();
    simlibc::CRASH_WRITER.store(crash_record as fn(&mut Ctx) -> String as *mut (), std::sync::atomic::Ordering::SeqCst);
    let stub = stub_dir();
    let spec = spec.clone();
    let h = std::thread::Builder::new().name("step".into()).stack_size(8 << 20).spawn(move || run_one_step(&spec, &stub)).expect("spawn step thread");
    h.join().expect("step thread")
}

/// A session: step specifications arrive one per line on stdin, each is run by the SAME
/// thread of this process (whatever the code under test keeps in statics or thread-locals
/// lives on from step to step, as in a watch mode or a language server), and answered with
/// one result line.  A simulated crash ends the process (the driver starts a new session).
pub fn exec_session() {
    use std::io::{BufRead, Write};
    install_panic_hook();
    simlibc::CRASH_WRITER.store(crash_record as fn(&mut Ctx) -> String as *mut (), std::sync::atomic::Ordering::SeqCst);
    let stub = stub_dir();
    let (tx, rx) = std::sync::mpsc::channel::<StepSpec>();
    let (rtx, rrx) = std::sync::mpsc::channel::<StepResult>();
    let worker = std::thread::Builder::new()
        .name("session".into())
        .stack_size(8 << 20)
        .spawn(move || {
            for spec in rx {
                let r = run_one_step(&spec, &stub);
                if rtx.send(r).is_err() {
                    break;
                }
            }
        })
        .expect("spawn session thread");
    let stdin = std::io::stdin();
    for line in stdin.lock().lines() {
        let line = match line {
            Ok(l) => l,
            Err(_) => break,
        };
        if line.trim().is_empty() {
            continue;
        }
        let spec: StepSpec = match serde_json::from_str(&line) {
            Ok(s) => s,
            Err(_) => break,
        };
        if tx.send(spec).is_err() {
            break;
        }
        match rrx.recv() {
            Ok(r) => {
                let mut out = std::io::stdout().lock();
                let _ = writeln!(out, "{}", serde_json::to_string(&r).unwrap());
                let _ = out.flush();
            }
            Err(_) => break,
        }
    }
    drop(tx);
    let _ = worker.join();
}

/// Seam self-check: inside a context, a File/HashSet/read_dir round trip must go through
/// the overrides.  Returns an error text when the seam is not in place.
pub fn seam_selfcheck(scratch: &str) -> Result<String, String> {
    use std::io::{Read, Write};
    let root = format!("{scratch}/seamcheck");
    let _ = std::fs::remove_dir_all(&root);
    std::fs::create_dir_all(&root).map_err(|e| e.to_string())?;
    let r2 = root.clone();
    let h = std::thread::spawn(move || {
        let ctxp = Box::into_raw(Box::new(Ctx::new(&r2, &stub_dir(), 7, 3)));
        simlibc::set_current(ctxp);
        let fp1 = canary_fingerprint();
        let res: Result<(), String> = (|| {
            std::fs::create_dir(format!("{r2}/d")).map_err(|e| e.to_string())?;
            let mut f = std::fs::File::create(format!("{r2}/d/x.txt")).map_err(|e| e.to_string())?;
            f.write_all(b"hello").map_err(|e| e.to_string())?;
            drop(f);
            let mut s = String::new();
            std::fs::File::open(format!("{r2}/d/x.txt")).map_err(|e| e.to_string())?.read_to_string(&mut s).map_err(|e| e.to_string())?;
            if s != "hello" {
                return Err("canary content".into());
            }
            let n = std::fs::read_dir(format!("{r2}/d")).map_err(|e| e.to_string())?.count();
            if n != 1 {
                return Err("canary listing".into());
            }
            let _ = std::path::Path::new(&format!("{r2}/d")).is_dir();
            Ok(())
        })();
        simlibc::set_current(std::ptr::null_mut());
        let ctx = unsafe { Box::from_raw(ctxp) };
        (res, ctx.log.clone(), ctx.getrandom_calls, fp1)
    });
    let (res, log, gr, fp1) = h.join().map_err(|_| "seam thread panicked".to_string())?;
    res?;
    let need = ["mkdir ", "open ", "write ", "read ", "readdir ", "statx ", "opendir "];
    for n in need {
        if !log.iter().any(|l| l.starts_with(n)) {
            return Err(format!("override `{}` was not reached; log={:?}", n.trim(), log));
        }
    }
    if gr == 0 {
        return Err("getrandom override was not reached (hash keys are not simulated)".into());
    }
    // same seed on another thread => same canary order; other seed => (almost surely) another
    let fp = |seed: u64| {
        std::thread::spawn(move || {
            let ctxp = Box::into_raw(Box::new(Ctx::new("", "", seed, 0)));
            simlibc::set_current(ctxp);
            let f = canary_fingerprint();
            simlibc::set_current(std::ptr::null_mut());
            unsafe { drop(Box::from_raw(ctxp)) };
            f
        })
        .join()
        .unwrap()
    };
    let a = fp(7);
    let b = fp(8);
    if a != fp1 {
        return Err("same hash seed gave a different canary order".into());
    }
    if a == b {
        return Err("different hash seeds gave the same canary order".into());
    }
    let _ = std::fs::remove_dir_all(&root);
    Ok(format!("seam ok: {} calls logged", log.len()))
}
