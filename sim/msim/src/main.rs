#![recursion_limit = "512"]
mod c12;
mod c13;
mod c13run;
mod corpus;
mod exec;
mod findings;
mod gen;
mod pool;
mod scen;
mod selftest;
mod simlibc;
mod util;

use std::io::Read;

fn read_input(arg: Option<&String>) -> String {
    match arg {
        Some(p) if p != "-" => std::fs::read_to_string(p).unwrap_or_else(|e| {
            eprintln!("msim: cannot read {p}: {e}");
            finish(2)
        }),
        _ => {
            let mut s = String::new();
            std::io::stdin().read_to_string(&mut s).unwrap();
            s
        }
    }
}

fn finish(code: i32) -> ! {
    c12::cleanup_private();
    std::process::exit(code)
}

fn main() {
    let args: Vec<String> = std::env::args().collect();
    let cmd = args.get(1).map(|s| s.as_str()).unwrap_or("");
    match cmd {
        "exec-jobs" => {
            let sc: scen::C12Scenario = serde_json::from_str(&read_input(args.get(2))).expect("scenario json");
            let keep = std::env::var("MSIM_KEEP_LOG").is_ok();
            let r = exec::exec_jobs(&sc, keep);
            println!("{}", serde_json::to_string(&r).unwrap());
        }
        "exec-step" => {
            let spec: scen::StepSpec = serde_json::from_str(&read_input(args.get(2))).expect("step json");
            let r = exec::exec_step(&spec);
            println!("{}", serde_json::to_string(&r).unwrap());
        }
        "exec-session" => exec::exec_session(),
        "seamcheck" => {
            let scratch = args.get(2).cloned().unwrap_or_else(|| "/dev/shm".into());
            match exec::seam_selfcheck(&scratch) {
                Ok(m) => println!("{m}"),
                Err(e) => {
                    println!("HARNESS-ERROR seam: {e}");
                    finish(2);
                }
            }
        }
        "check" => {
            let prop = args.get(2).cloned().unwrap_or_default();
            let tier = std::env::var("VERIF_TIER").ok().or(args.get(3).cloned()).unwrap_or_else(|| "quick".into());
            let tier = args.get(3).cloned().unwrap_or(tier);
            let seed: u64 = std::env::var("VERIF_SEED").ok().and_then(|v| v.parse().ok()).unwrap_or(20260925);
            let verif = std::env::var("VERIF_DIR").unwrap_or_else(|_| "/verif".into());
            let scratch = pool::scratch_base("seam");
            let seam = exec::seam_selfcheck(&scratch);
            let _ = std::fs::remove_dir_all(&scratch);
            if let Err(e) = seam {
                println!("HARNESS-ERROR seam: {e}");
                finish(2);
            }
            println!("VERIF_SEED={seed} tier={tier} property={prop}");
            let code = match prop.as_str() {
                "C12" => {
                    let c = c12::run_check(&tier, seed, &verif).exit;
                    c12::cleanup_private();
                    c
                }
                "C13" => {
                    let c = c13run::run_check(&tier, seed, &verif);
                    c12::cleanup_private();
                    c
                }
                _ => {
                    eprintln!("unknown property {prop}");
                    2
                }
            };
            finish(code);
        }
        "probe" => {
            // msim probe <n-seeds> <file.mamba>...   : one multi-file program, seeds 0..n, both annotate values
            let n: u64 = args.get(2).and_then(|v| v.parse().ok()).unwrap_or(12);
            let files: Vec<scen::SrcFile> = args[3..]
                .iter()
                .map(|p| scen::SrcFile { path: std::path::Path::new(p).file_name().unwrap().to_string_lossy().into_owned(), text: std::fs::read_to_string(p).expect("read") })
                .collect();
            for annotate in [false, true] {
                let p = scen::Program { files: files.clone(), annotate, features: vec![], label: "probe".into(), path_mode: String::new() };
                let seeds: Vec<u64> = (0..n).collect();
                let res = pool::par_map(&seeds, pool::workers(), |_, &s| {
                    let mut refs = c12::RefCache::new();
                    let r = refs.get_or_run(&p);
                    let mut sc: scen::C12Scenario = serde_json::from_value(serde_json::json!({"property":"C12","seed":0,"index":0,"programs":[p.clone()],"threads":[{"hash_seed":s,"readdir_seed":0}],"clock":c12::CANON_CLOCK,"pid":c12::CANON_PID,"schedule":[{"jobs":[{"thread":0,"program":0,"measured":true}]}]})).unwrap();
                    sc.cwd = "/".into();
                    let j = c12::run_scenario(&sc).jobs.pop().unwrap();
                    let cmp = c12::compare(&r, &j);
                    (s, j, cmp)
                });
                let mut classes = std::collections::BTreeMap::new();
                for (s, j, cmp) in &res {
                    let k = match cmp { Some((c, d)) => format!("{c}: {d}"), None => format!("same ({})", j.verdict) };
                    classes.entry(k).or_insert_with(Vec::new).push(*s);
                }
                println!("annotate={annotate}");
                for (k, v) in classes {
                    println!("  seeds {:?}: {}", v, k);
                }
                if let Some((_, j, _)) = res.first() {
                    if j.verdict == "err" { println!("  canonical diagnostics: {}", j.diags.join(" || ").chars().take(600).collect::<String>()); }
                    if j.verdict == "panic" { println!("  canonical panic: {}", j.panic_msg); }
                    if std::env::var("MSIM_SHOW").is_ok() { for o in &j.outputs { println!("----\n{o}"); } }
                }
            }
        }
        "gen-stats" => {
            let n: usize = args.get(2).and_then(|v| v.parse().ok()).unwrap_or(200);
            let seed: u64 = args.get(3).and_then(|v| v.parse().ok()).unwrap_or(1);
            let mut rng = util::Rng::new(seed);
            let fenced = findings::fenced(&findings::load(&std::env::var("VERIF_DIR").unwrap_or_else(|_| "/verif".into())), "C12");
            let progs: Vec<scen::Program> = (0..n).map(|i| scen::Program { files: gen::generate(&mut rng, &fenced), annotate: i % 2 == 0, features: vec![], label: format!("g{i}"), path_mode: String::new() }).collect();
            let timed = pool::par_map(&progs, 4, |_, p| { let t = std::time::Instant::now(); let r = c12::RefCache::new().get_or_run(p); (r, t.elapsed().as_millis() as u64) });
            let mut ts: Vec<(u64, usize)> = timed.iter().enumerate().map(|(i, (_, t))| (*t, i)).collect();
            ts.sort();
            println!("ms/job: median {} p90 {} max {:?} mean {}", ts[ts.len() / 2].0, ts[ts.len() * 9 / 10].0, ts.last().unwrap(), ts.iter().map(|t| t.0).sum::<u64>() / ts.len() as u64);
            let res: Vec<scen::JobResult> = timed.into_iter().map(|(r, _)| r).collect();
            let mut reasons: std::collections::BTreeMap<String, (usize, usize)> = Default::default();
            let mut ok = 0;
            for (i, r) in res.iter().enumerate() {
                if r.verdict == "ok" { ok += 1; continue; }
                let why = if r.verdict == "err" { r.diags.first().map(|d| d.lines().next().unwrap_or("").to_string()).unwrap_or_default() } else { format!("{}: {}", r.verdict, r.panic_msg.lines().next().unwrap_or("")) };
                let why: String = why.chars().map(|c| if c.is_ascii_digit() { '#' } else { c }).collect();
                let e = reasons.entry(why).or_insert((0, i));
                e.0 += 1;
            }
            println!("accepted {ok}/{n}");
            let mut v: Vec<_> = reasons.into_iter().collect();
            v.sort_by_key(|(_, (c, _))| std::cmp::Reverse(*c));
            for (why, (c, i)) in v.iter().take(25) {
                println!("{c:4}  {why}   (e.g. #{i})");
            }
            if let Some(i) = args.get(4).and_then(|v| v.parse::<usize>().ok()) {
                println!("---- program #{i}\n{}", progs[i].files[0].text);
                println!("---- {:?}", res[i].diags);
            }
        }
        "mkwitness" => {
            // msim mkwitness <out.json> <max-seed> <file.mamba>... : find the first hash seed under which the
            // program diverges from its canonical run, minimise, write the scenario as a witness
            let out = args.get(2).cloned().expect("out path");
            let n: u64 = args.get(3).and_then(|v| v.parse().ok()).unwrap_or(32);
            let files: Vec<scen::SrcFile> = args[4..]
                .iter()
                .map(|p| scen::SrcFile { path: std::path::Path::new(p).file_name().unwrap().to_string_lossy().into_owned(), text: std::fs::read_to_string(p).expect("read") })
                .collect();
            let p = scen::Program { files, annotate: true, features: vec![], label: "witness".into(), path_mode: String::new() };
            let mut refs = c12::RefCache::new();
            for s in 1..=n {
                let sc: scen::C12Scenario = serde_json::from_value(serde_json::json!({"property":"C12","seed":0,"index":0,"programs":[p.clone()],"threads":[{"hash_seed":s,"readdir_seed":0}],"cwd":"/","clock":c12::CANON_CLOCK,"pid":c12::CANON_PID,"schedule":[{"jobs":[{"thread":0,"program":0,"measured":true}]}]})).unwrap();
                let (_, v) = c12::check_scenario(&sc, &mut refs);
                if let Some(v0) = v.first() {
                    let mut budget = 300;
                    let mut min = c12::minimise(&sc, v0, &mut refs, &mut budget);
                    min.expect = Some(scen::Expect { class: v0.class.clone(), detail: String::new() });
                    let d = c12::replay(&min).expect("witness must replay");
                    min.expect = Some(scen::Expect { class: v0.class.clone(), detail: d.clone() });
                    min.programs[0].features = corpus::features_of(&min.programs[0].files, &corpus::builtin_names());
                    std::fs::write(&out, serde_json::to_string_pretty(&min).unwrap()).unwrap();
                    println!("witness written: {out}: {d}; features {:?}", min.programs[0].features);
                    c12::cleanup_private();
                    return;
                }
            }
            println!("no divergence found up to seed {n}");
            finish(1);
        }
        "selftest-reach" => {
            let verif = std::env::var("VERIF_DIR").unwrap_or_else(|_| "/verif".into());
            finish(selftest::reach(&verif));
        }
        "selftest-determinism" => {
            let seed: u64 = std::env::var("VERIF_SEED").ok().and_then(|v| v.parse().ok()).unwrap_or(20260925);
            let verif = std::env::var("VERIF_DIR").unwrap_or_else(|_| "/verif".into());
            finish(selftest::determinism(seed, &verif));
        }
        "replay" => {
            let path = args.get(2).cloned().unwrap_or_default();
            let text = read_input(Some(&path));
            let v: serde_json::Value = serde_json::from_str(&text).expect("replay json");
            match v["property"].as_str() {
                Some("C12") => {
                    let sc: scen::C12Scenario = serde_json::from_value(v).expect("C12 scenario");
                    match c12::replay(&sc) {
                        Some(d) => {
                            println!("reproduced: {d}");
                            println!("VIOLATION property=C12 replay={path}");
                            finish(1);
                        }
                        None => {
                            println!("not reproduced");
                            finish(0);
                        }
                    }
                }
                Some("C13") => {
                    let sc: c13::C13Scenario = serde_json::from_value(v).expect("C13 scenario");
                    let scratch = pool::scratch_base("replay");
                    let r = c13::replay(&sc, &scratch);
                    let _ = std::fs::remove_dir_all(&scratch);
                    match r {
                        Some(d) => {
                            println!("reproduced: {d}");
                            println!("VIOLATION property=C13 replay={path}");
                            finish(1);
                        }
                        None => {
                            println!("not reproduced");
                            finish(0);
                        }
                    }
                }
                _ => {
                    eprintln!("unknown property in replay file");
                    finish(2);
                }
            }
        }
        _ => {
            eprintln!("usage: msim <exec-jobs|exec-step|seamcheck> ...");
            finish(2);
        }
    }
    c12::cleanup_private();
}
