mod exec;
mod scen;
mod simlibc;
mod util;

use std::io::Read;

fn read_input(arg: Option<&String>) -> String {
    match arg {
        Some(p) if p != "-" => std::fs::read_to_string(p).unwrap_or_else(|e| {
            eprintln!("msim: cannot read {p}: {e}");
            std::process::exit(2)
        }),
        _ => {
            let mut s = String::new();
            std::io::stdin().read_to_string(&mut s).unwrap();
            s
        }
    }
}

fn main() {
    let args: Vec<String> = std::env::args().collect();
    let cmd = args.get(1).map(|s| s.as_str()).unwrap_or("");
    match cmd {
        "exec-jobs" => {
            let sc: scen::C12Scenario = serde_json::from_str(&read_input(args.get(2))).expect("scenario json");
            let keep = std::env::var("MSIM_KEEP_LOG").is_ok();
            let r = exec::exec_jobs(&sc, keep);
            println!("{}", serde_json::to_string(&r).unwrap());
        }
        "exec-step" => {
            let spec: scen::StepSpec = serde_json::from_str(&read_input(args.get(2))).expect("step json");
            let r = exec::exec_step(&spec);
            println!("{}", serde_json::to_string(&r).unwrap());
        }
        "seamcheck" => {
            let scratch = args.get(2).cloned().unwrap_or_else(|| "/dev/shm".into());
            match exec::seam_selfcheck(&scratch) {
                Ok(m) => println!("{m}"),
                Err(e) => {
                    println!("HARNESS-ERROR seam: {e}");
                    std::process::exit(2);
                }
            }
        }
        _ => {
            eprintln!("usage: msim <exec-jobs|exec-step|seamcheck> ...");
            std::process::exit(2);
        }
    }
}
