mod c12;
mod corpus;
mod exec;
mod findings;
mod gen;
mod pool;
mod scen;
mod simlibc;
mod util;

use std::io::Read;

fn read_input(arg: Option<&String>) -> String {
    match arg {
        Some(p) if p != "-" => std::fs::read_to_string(p).unwrap_or_else(|e| {
            eprintln!("msim: cannot read {p}: {e}");
            std::process::exit(2)
        }),
        _ => {
            let mut s = String::new();
            std::io::stdin().read_to_string(&mut s).unwrap();
            s
        }
    }
}

fn main() {
    let args: Vec<String> = std::env::args().collect();
    let cmd = args.get(1).map(|s| s.as_str()).unwrap_or("");
    match cmd {
        "exec-jobs" => {
            let sc: scen::C12Scenario = serde_json::from_str(&read_input(args.get(2))).expect("scenario json");
            let keep = std::env::var("MSIM_KEEP_LOG").is_ok();
            let r = exec::exec_jobs(&sc, keep);
            println!("{}", serde_json::to_string(&r).unwrap());
        }
        "exec-step" => {
            let spec: scen::StepSpec = serde_json::from_str(&read_input(args.get(2))).expect("step json");
            let r = exec::exec_step(&spec);
            println!("{}", serde_json::to_string(&r).unwrap());
        }
        "seamcheck" => {
            let scratch = args.get(2).cloned().unwrap_or_else(|| "/dev/shm".into());
            match exec::seam_selfcheck(&scratch) {
                Ok(m) => println!("{m}"),
                Err(e) => {
                    println!("HARNESS-ERROR seam: {e}");
                    std::process::exit(2);
                }
            }
        }
        "check" => {
            let prop = args.get(2).cloned().unwrap_or_default();
            let tier = std::env::var("VERIF_TIER").ok().or(args.get(3).cloned()).unwrap_or_else(|| "quick".into());
            let tier = args.get(3).cloned().unwrap_or(tier);
            let seed: u64 = std::env::var("VERIF_SEED").ok().and_then(|v| v.parse().ok()).unwrap_or(20260925);
            let verif = std::env::var("VERIF_DIR").unwrap_or_else(|_| "/verif".into());
            let scratch = pool::scratch_base("seam");
            let seam = exec::seam_selfcheck(&scratch);
            let _ = std::fs::remove_dir_all(&scratch);
            if let Err(e) = seam {
                println!("HARNESS-ERROR seam: {e}");
                std::process::exit(2);
            }
            println!("VERIF_SEED={seed} tier={tier} property={prop}");
            let code = match prop.as_str() {
                "C12" => c12::run_check(&tier, seed, &verif).exit,
                _ => {
                    eprintln!("unknown property {prop}");
                    2
                }
            };
            std::process::exit(code);
        }
        "replay" => {
            let path = args.get(2).cloned().unwrap_or_default();
            let text = read_input(Some(&path));
            let v: serde_json::Value = serde_json::from_str(&text).expect("replay json");
            match v["property"].as_str() {
                Some("C12") => {
                    let sc: scen::C12Scenario = serde_json::from_value(v).expect("C12 scenario");
                    match c12::replay(&sc) {
                        Some(d) => {
                            println!("reproduced: {d}");
                            println!("VIOLATION property=C12 replay={path}");
                            std::process::exit(1);
                        }
                        None => {
                            println!("not reproduced");
                            std::process::exit(0);
                        }
                    }
                }
                _ => {
                    eprintln!("unknown property in replay file");
                    std::process::exit(2);
                }
            }
        }
        _ => {
            eprintln!("usage: msim <exec-jobs|exec-step|seamcheck> ...");
            std::process::exit(2);
        }
    }
}
