//! C13 — scenario generation (project histories, fault plans), the check itself,
//! minimiser, evidence.

use crate::c13::*;
use crate::corpus;
use crate::findings;
use crate::gen::Gen;
use crate::pool::{par_map, scratch_base, workers};
use crate::scen::{Expect, SrcFile};
use crate::simlibc::PlanItem;
use crate::util::{digest, Rng};
use serde_json::json;
use std::collections::{BTreeMap, BTreeSet};
use std::time::Instant;

const DIRS: &[&str] = &["", "", "", "pkg", "pkg/deep", "lib v2", "lib [v2]", "Ünï", "a.b", "pkg/deep/er", "target", "build", "tests", "src", ".cfg", "_gen", "srcx", "arch.mamba", "w\\in", "a/b/c/d/e"];
const BASES: &[&str] = &["alpha", "beta", "my file", "v1.2", "Ünï", "UPPER", "9lives", "x-y", "m_1", "zed", "ALPHA", "__init__", "a+b", ".hidden", "_private", "a b c", "très", "target", "src", "x.mamba.bak", "back\\slash"];
const EXT_MODULES: &[(&str, &[&str])] = &[("ipaddress", &["IPv4Address", "IPv6Address", "ip_network", "IPv4Network"]), ("decimal", &["Decimal", "Inexact", "Rounded"]), ("pathlib", &["Path", "PurePath", "PosixPath"])];
const ROOTS: &[&str] = &["proj", "proj", "my proj", "prøj", "p.r.o.j", "P1"];
const ROOTS_GLOB: &[&str] = &["pq [x]", "a*b", "q?z", "br{a,b}"];

pub struct GenCfg {
    pub faults: bool,
    pub rounds_max: u64,
    pub cli_permille: u64,
    pub all_perms: bool,
}

fn pick_paths(rng: &mut Rng, n: usize) -> Vec<String> {
    let mut bases: Vec<&str> = BASES.to_vec();
    rng.shuffle(&mut bases);
    (0..n)
        .map(|i| {
            let d = *rng.pick(DIRS);
            if d.is_empty() {
                format!("{}.mamba", bases[i])
            } else {
                format!("{}/{}.mamba", d, bases[i])
            }
        })
        .collect()
}

fn gen_project(rng: &mut Rng, fenced: &BTreeSet<String>, builtins: &BTreeSet<String>, n: usize) -> (Vec<SrcFile>, Vec<SrcFile>, Vec<Option<String>>) {
    let mut paths = pick_paths(rng, n);
    // sometimes two files share a base name in different directories
    if n >= 2 && rng.chance(1, 4) {
        let i = rng.below(n as u64) as usize;
        let j = (i + 1 + rng.below(n as u64 - 1) as usize) % n;
        let base = std::path::Path::new(&paths[i]).file_name().unwrap().to_string_lossy().into_owned();
        let dir_i = std::path::Path::new(&paths[i]).parent().map(|p| p.to_string_lossy().into_owned()).unwrap_or_default();
        let other_dirs: Vec<&&str> = DIRS.iter().filter(|d| **d != dir_i).collect();
        let d = **rng.pick(&other_dirs);
        paths[j] = if d.is_empty() { base } else { format!("{d}/{base}") };
    }
    // sometimes a file or directory name that is not UTF-8 (legal on Linux; U+F8FF in the
    // scenario stands for the byte 0xFF)
    if !fenced.contains("non_utf8_file_name") && rng.chance(1, 8) {
        let i = rng.below(n as u64) as usize;
        let b = crate::c13::BAD_BYTE;
        paths[i] = if rng.chance(1, 3) { format!("d{b}r/{}", std::path::Path::new(&paths[i]).file_name().unwrap().to_string_lossy()) } else { paths[i].replacen(".mamba", &format!("{b}.mamba"), 1) };
    }
    // sometimes two paths that differ only in case (in the file name or in a directory name)
    if n >= 2 && rng.chance(1, 6) {
        let i = rng.below(n as u64) as usize;
        let j = (i + 1 + rng.below(n as u64 - 1) as usize) % n;
        let p = paths[i].clone();
        let (dir, base) = match p.rsplit_once('/') {
            Some((d, b)) => (d.to_string(), b.to_string()),
            None => (String::new(), p.clone()),
        };
        let flip = |s: &str| -> String {
            let stem = s.strip_suffix(".mamba").unwrap_or(s);
            let ext = &s[stem.len()..];
            let up = stem.to_uppercase();
            format!("{}{ext}", if up != stem { up } else { stem.to_lowercase() })
        };
        let cand = if !dir.is_empty() && rng.chance(1, 2) { format!("{}/{base}", flip(&dir)) } else if dir.is_empty() { flip(&base) } else { format!("{dir}/{}", flip(&base)) };
        if cand != p && !paths.contains(&cand) {
            paths[j] = cand;
        }
    }
    // sometimes two sibling directories one of whose names is a string prefix of the other
    // (`util/` next to `utils/`, `v1/` next to `v10/`)
    if n >= 2 && rng.chance(1, 5) {
        let i = rng.below(n as u64) as usize;
        let j = (i + 1 + rng.below(n as u64 - 1) as usize) % n;
        let stem = *rng.pick(&["util", "model", "v1", "pkg", "Ünï"]);
        let longer = format!("{stem}{}", rng.pick(&["s", "0", "_x", " 2"]));
        let base = |p: &str| std::path::Path::new(p).file_name().unwrap().to_string_lossy().into_owned();
        let parent = if rng.chance(1, 3) { "nest/" } else { "" };
        paths[i] = format!("{parent}{stem}/{}", base(&paths[i]));
        paths[j] = format!("{parent}{longer}/{}", base(&paths[j]));
    }
    // the adjustments above must not make two files one
    for i in 0..paths.len() {
        while paths[..i].contains(&paths[i]) {
            let p = std::path::Path::new(&paths[i]);
            let stem = p.file_stem().unwrap().to_string_lossy().into_owned();
            let dir = p.parent().map(|d| d.to_string_lossy().into_owned()).unwrap_or_default();
            paths[i] = if dir.is_empty() { format!("{stem}_{i}.mamba") } else { format!("{dir}/{stem}_{i}.mamba") };
        }
    }
    let mut files = vec![];
    let mut xfaults: Vec<Option<String>> = vec![];
    {
        let mut g = Gen::new(rng, fenced, "");
        g.conservative = true;
        for (i, p) in paths.iter().enumerate() {
            let prefix = format!("f{}", (b'a' + i as u8) as char);
            let visible: BTreeSet<usize> = (0..i).filter(|_| g.rng.chance(1, 2)).collect();
            // file programs come from the hash-stable part of the generator: a file that shows a
            // feature of an open finding (computed from its text) is generated again
            for attempt in 0..12 {
                let (nc, nf) = (g.classes.len(), g.funs.len());
                g.begin_file(i, &prefix, &visible);
                g.small_program();
                // when something of another file is visible, use it for certain
                let foreign = g.foreign_plain_classes();
                if !foreign.is_empty() {
                    let ci = *g.rng.pick(&foreign);
                    let l = g.use_line(ci);
                    g.out.push_str(&l);
                    // sometimes with an import line for the class (the import only registers a
                    // placeholder; the definition in the other file must win whatever the order)
                    if g.rng.chance(1, 3) {
                        let cname = g.classes[ci].name.clone();
                        let module = g.class_file.get(ci).and_then(|f| paths.get(*f)).map(|p| std::path::Path::new(p).file_stem().unwrap().to_string_lossy().into_owned()).unwrap_or_else(|| "other".into());
                        let module: String = module.chars().map(|c| if c.is_ascii_alphanumeric() { c } else { '_' }).collect();
                        let module = if module.chars().next().map(|c| c.is_ascii_digit()).unwrap_or(true) { format!("m{module}") } else { module };
                        g.out = format!("from {module} import {cname}\n{}", g.out);
                    }
                }
                let feats = corpus::features_of(&[SrcFile { path: p.clone(), text: g.out.clone() }], builtins);
                if !feats.iter().any(|f| fenced.contains(f)) {
                    break;
                }
                // forget what the rejected attempt declared
                g.classes.truncate(nc);
                g.funs.truncate(nf);
                g.class_file.truncate(nc);
                g.fun_file.truncate(nf);
                g.interfaces.retain(|&x| x < nc);
                if attempt == 11 {
                    g.begin_file(i, &prefix, &visible);
                    g.out = format!("def {prefix}only := 1\n");
                }
            }
            // the form of the text on disk: mostly as generated; sometimes without the final
            // newline, with CRLF line endings, with a leading comment and blank lines, with
            // non-ASCII text in a string literal, or empty
            let mut text = g.out.clone();
            match g.rng.below(14) {
                0 => text = text.trim_end_matches('\n').to_string(),
                1 => text = text.replace('\n', "\r\n"),
                2 => text = format!("# généré — {}\n\n\n{}", p, text),
                3 => text.push_str(&format!("def {prefix}uni := \"naïve — 日本語 ✓\"\n")),
                4 if i > 0 || g.rng.chance(1, 3) => text = String::new(),
                // a big file: source and output larger than the usual buffer sizes (8 KiB, 64 KiB,
                // 128 KiB) — through a long string literal or a long leading doc string, which
                // cost the checker nothing
                5 => {
                    let n = *g.rng.pick(&[9_000usize, 70_000, 140_000]);
                    if !text.starts_with("from ") && g.rng.chance(1, 2) {
                        text = format!("\"\"\" {}\"\"\"\n{}", "lorem ipsum dolor ".repeat(n / 18), text);
                    } else {
                        text.push_str(&format!("def {prefix}big := \"{}\"\n", "sit amet ".repeat(n / 9)));
                    }
                }
                _ => {}
            }
            files.push(SrcFile { path: p.clone(), text });
            let xf = g.cross_fault_line(&prefix);
            xfaults.push(xf);
        }
    }
    // sometimes names imported from a Python module the project does not contain: several
    // import statements naming the SAME module with different names — in several files, or two
    // in one file — and every imported name used as a type.  Which statement comes last must
    // not matter to any of them.
    if rng.chance(1, 4) {
        let (module, names) = *rng.pick(EXT_MODULES);
        let mut order: Vec<usize> = (0..names.len()).collect();
        rng.shuffle(&mut order);
        let mut k = 0;
        let single = files.iter().filter(|f| !f.text.is_empty() && !f.text.contains('\r')).count() < 2;
        for (i, f) in files.iter_mut().enumerate() {
            if f.text.is_empty() || f.text.contains('\r') || k >= names.len() {
                continue;
            }
            let take = if single { 2 } else if rng.chance(3, 4) { 1 } else { 0 };
            for _ in 0..take {
                if k >= names.len() {
                    break;
                }
                let nme = names[order[k]];
                let nl = if f.text.ends_with('\n') { "" } else { "\n" };
                f.text = format!("from {module} import {nme}\n{}{nl}def xi{i}k{k}(x: {nme}) -> {nme} => x\n", f.text);
                k += 1;
            }
        }
    }
    // sometimes a class whose parents live in two OTHER files and define a member of the same
    // name (different types), used through the child: which parent wins must not depend on the
    // order in which the files are presented
    if files.len() >= 3 && rng.chance(1, 4) {
        let mut idx: Vec<usize> = (0..files.len()).collect();
        rng.shuffle(&mut idx);
        let (a, b, c) = (idx[0], idx[1], idx[2]);
        if !files[a].text.is_empty() && !files[b].text.is_empty() && !files[c].text.is_empty() && !files[a].text.contains('\r') && !files[b].text.contains('\r') && !files[c].text.contains('\r') {
            let (n1, n2) = if rng.chance(1, 2) { ("XpSwimmer", "XpWalker") } else { ("XpWalker", "XpSwimmer") };
            let nl = |t: &str| if t.ends_with('\n') { "" } else { "\n" };
            let ta = format!("{}{}\nclass {n1}\n    def xpdepth: Int := 2\n    def xpspeed(self) -> Int => 3\n    def xpdescribe(self) -> Str => \"swims\"\n", files[a].text, nl(&files[a].text));
            let tb = format!("{}{}\nclass {n2}\n    def xpspeed(self) -> Float => 1.5\n    def xpdescribe(self) -> Str => \"walks\"\n", files[b].text, nl(&files[b].text));
            let parents = if rng.chance(1, 2) { format!("{n1}, {n2}") } else { format!("{n2}, {n1}") };
            let typed = if rng.chance(1, 2) { "def xpfast: Int := xpg.xpspeed()\n" } else { "" };
            let tc = format!("{}{}\nclass XpFrog: {parents}\n    def xpname: Str := \"frog\"\n\ndef xpg := XpFrog()\ndef xps := xpg.xpspeed()\ndef xpd := xpg.xpdescribe()\n{typed}", files[c].text, nl(&files[c].text));
            files[a].text = ta;
            files[b].text = tb;
            files[c].text = tc;
        }
    }
    let mut bystanders = vec![];
    for (p, t) in [("README.txt", "not a mamba file\n"), ("pkg/data.json", "{}\n"), ("notes.mamba.bak", "def x := $\n"), ("script.py", "print('bystander')\n"), ("pkg/x.mambax", "class\n"), ("mamba", "def q := $\n"), ("pkg/UP.MAMBA", "class\n"), ("mamba.d/readme", "x\n")] {
        if rng.chance(1, 3) {
            bystanders.push(SrcFile { path: p.to_string(), text: t.to_string() });
        }
    }
    (files, bystanders, xfaults)
}

fn fault_line(rng: &mut Rng, tag: &str, fenced: &BTreeSet<String>) -> (String, &'static str) {
    let n = if fenced.contains("context_stage_type_error") { 3 } else { 4 };
    // a byte sequence that is not UTF-8, in a comment or in a string literal
    if rng.chance(1, 8) {
        let b = crate::c13::BAD_BYTE;
        return (if rng.chance(1, 2) { format!("# {tag} caf{b}\n") } else { format!("def {tag}enc := \"na{b}ve\"\n") }, "encoding");
    }
    match rng.below(n) {
        3 => (format!("type {}Bad: {{Int, Str}}\n", tag.to_uppercase()), "context"),
        0 => (format!("def {tag}bad := $\n"), "lexical"),
        1 => (format!("def {tag}bad: Int :=\n"), "syntax"),
        _ => (format!("def {tag}bad: Int := \"a\"\n"), "type"),
    }
}

fn random_perm(rng: &mut Rng, n: usize) -> Vec<usize> {
    let mut p: Vec<usize> = (0..n).collect();
    rng.shuffle(&mut p);
    p
}

fn all_perms(n: usize) -> Vec<Vec<usize>> {
    fn rec(cur: &mut Vec<usize>, used: &mut Vec<bool>, n: usize, out: &mut Vec<Vec<usize>>) {
        if cur.len() == n {
            out.push(cur.clone());
            return;
        }
        for i in 0..n {
            if !used[i] {
                used[i] = true;
                cur.push(i);
                rec(cur, used, n, out);
                cur.pop();
                used[i] = false;
            }
        }
    }
    let mut out = vec![];
    rec(&mut vec![], &mut vec![false; n], n, &mut out);
    out
}

fn benign_plan(rng: &mut Rng, counters: &BTreeMap<String, u32>) -> Vec<PlanItem> {
    let mut v = vec![];
    if rng.chance(1, 2) {
        return v;
    }
    let get = |k: &str, d: u32| counters.get(k).cloned().unwrap_or(d).max(1);
    for _ in 0..rng.range(1, 5) {
        match rng.below(6) {
            0 => v.push(PlanItem { call: "read".into(), nth: rng.below(get("read", 4) as u64) as u32, kind: "short".into(), arg: rng.range(1, 40) as i64 }),
            1 => v.push(PlanItem { call: "read".into(), nth: rng.below(get("read", 4) as u64) as u32, kind: "eintr".into(), arg: 0 }),
            2 => v.push(PlanItem { call: "open_r".into(), nth: rng.below(get("open_r", 2) as u64) as u32, kind: "eintr".into(), arg: 0 }),
            3 => v.push(PlanItem { call: "open_w".into(), nth: rng.below(get("open_w", 2) as u64) as u32, kind: "eintr".into(), arg: 0 }),
            4 => v.push(PlanItem { call: "read_stub".into(), nth: rng.below(26) as u32, kind: "short".into(), arg: rng.range(1, 100) as i64 }),
            _ => v.push(PlanItem { call: "open_stub".into(), nth: rng.below(13) as u32, kind: "eintr".into(), arg: 0 }),
        }
    }
    v
}

/// one fault inside the step, placed with the profile of the last fault-free step
pub fn random_fault(rng: &mut Rng, counters: &BTreeMap<String, u32>, calls: u64, log: &[String], log_seq: &[u64]) -> (Vec<PlanItem>, Option<u64>, Option<i64>) {
    let cnt = |k: &str| counters.get(k).cloned().unwrap_or(0);
    let e = |x: i32| x as i64;
    // write side is where in-flight state is: half of all faults land there
    let write_side = rng.chance(1, 2);
    for _ in 0..20 {
        let pick = if write_side { rng.below(5) } else { 5 + rng.below(9) };
        match pick {
            0 if cnt("write") > 0 => {
                let nth = rng.below(cnt("write") as u64) as u32;
                let kind = rng.below(4);
                let item = match kind {
                    0 => PlanItem { call: "write".into(), nth, kind: "short".into(), arg: rng.range(1, 120) as i64 },
                    1 => PlanItem { call: "write".into(), nth, kind: "eintr".into(), arg: 0 },
                    2 => PlanItem { call: "write".into(), nth, kind: "errno".into(), arg: e(libc::ENOSPC) },
                    _ => PlanItem { call: "write".into(), nth, kind: "errno".into(), arg: e(libc::EIO) },
                };
                return (vec![item], None, None);
            }
            1 if cnt("open_w") > 0 => {
                let nth = rng.below(cnt("open_w") as u64) as u32;
                let en = *rng.pick(&[libc::ENOSPC, libc::EACCES, libc::EROFS, libc::EMFILE]);
                return (vec![PlanItem { call: "open_w".into(), nth, kind: "errno".into(), arg: e(en) }], None, None);
            }
            2 if cnt("mkdir") > 0 => {
                let nth = rng.below(cnt("mkdir") as u64) as u32;
                let en = *rng.pick(&[libc::ENOSPC, libc::EACCES]);
                return (vec![PlanItem { call: "mkdir".into(), nth, kind: "errno".into(), arg: e(en) }], None, None);
            }
            3 => {
                // disk fills up somewhere inside the write phase
                return (vec![], None, Some(rng.below(600) as i64));
            }
            4 if calls > 0 => {
                // crash, biased to the calls that touch the tree after the first write-side call
                let tree_calls: Vec<u64> = log
                    .iter()
                    .enumerate()
                    .filter(|(_, l)| l.contains("$ROOT") || l.starts_with("write ") || l.starts_with("close "))
                    .map(|(i, _)| log_seq.get(i).cloned().unwrap_or(i as u64 + 1))
                    .collect();
                let at = if !tree_calls.is_empty() && rng.chance(4, 5) {
                    let tail = &tree_calls[tree_calls.len() / 2..];
                    let use_tail = rng.chance(2, 3) && !tail.is_empty();
                    *rng.pick(if use_tail { tail } else { &tree_calls })
                } else {
                    rng.range(1, calls)
                };
                return (vec![], Some(at), None);
            }
            5 if cnt("open_r") > 0 => {
                let nth = rng.below(cnt("open_r") as u64) as u32;
                let en = *rng.pick(&[libc::EACCES, libc::EMFILE, libc::ENOENT, libc::EIO]);
                return (vec![PlanItem { call: "open_r".into(), nth, kind: "errno".into(), arg: e(en) }], None, None);
            }
            6 if cnt("read") > 0 => {
                let nth = rng.below(cnt("read") as u64) as u32;
                return (vec![PlanItem { call: "read".into(), nth, kind: "errno".into(), arg: e(libc::EIO) }], None, None);
            }
            7 if cnt("opendir") > 0 => {
                let nth = rng.below(cnt("opendir") as u64) as u32;
                return (vec![PlanItem { call: "opendir".into(), nth, kind: "errno".into(), arg: e(libc::EACCES) }], None, None);
            }
            8 if cnt("readdir") > 0 => {
                let nth = rng.below(cnt("readdir") as u64) as u32;
                return (vec![PlanItem { call: "readdir".into(), nth, kind: "errno".into(), arg: (rng.below(4) * 1000) as i64 + e(libc::EIO) }], None, None);
            }
            9 if cnt("statx") > 0 => {
                let nth = rng.below(cnt("statx") as u64) as u32;
                return (vec![PlanItem { call: "statx".into(), nth, kind: "errno".into(), arg: e(libc::EACCES) }], None, None);
            }
            10 if cnt("open_stub") > 0 => {
                let nth = rng.below(cnt("open_stub") as u64) as u32;
                let en = *rng.pick(&[libc::EMFILE, libc::EIO, libc::EACCES]);
                return (vec![PlanItem { call: "open_stub".into(), nth, kind: "errno".into(), arg: e(en) }], None, None);
            }
            11 if cnt("read_stub") > 0 => {
                let nth = rng.below(cnt("read_stub") as u64) as u32;
                return (vec![PlanItem { call: "read_stub".into(), nth, kind: "errno".into(), arg: e(libc::EIO) }], None, None);
            }
            12 if cnt("opendir_stub") > 0 => {
                let nth = rng.below(cnt("opendir_stub") as u64) as u32;
                return (vec![PlanItem { call: "opendir_stub".into(), nth, kind: "errno".into(), arg: e(libc::EMFILE) }], None, None);
            }
            13 if cnt("readdir_stub") > 0 => {
                let nth = rng.below(cnt("readdir_stub") as u64) as u32;
                return (vec![PlanItem { call: "readdir_stub".into(), nth, kind: "errno".into(), arg: (rng.below(6) * 1000) as i64 + e(libc::EIO) }], None, None);
            }
            _ => {}
        }
    }
    (vec![], None, Some(0))
}

fn class_block(text: &str, kname: &str) -> (String, String) {
    def_block(text, &format!("class {kname}"))
}

/// (block of the top-level definition whose first line starts with `header` followed by a
/// non-identifier character, text without it)
fn def_block(text: &str, header: &str) -> (String, String) {
    let mut block = String::new();
    let mut rest = String::new();
    let mut skipping = false;
    for line in text.lines() {
        if !skipping && block.is_empty() && line.starts_with(header) && !line[header.len()..].starts_with(|c: char| c.is_ascii_alphanumeric() || c == '_') {
            skipping = true;
            block.push_str(line);
            block.push('\n');
            continue;
        }
        if skipping {
            if line.trim().is_empty() || !line.starts_with(' ') {
                skipping = false;
            } else {
                block.push_str(line);
                block.push('\n');
                continue;
            }
        }
        rest.push_str(line);
        rest.push('\n');
    }
    (block, rest)
}

fn visibility_relation(rng: &mut Rng, fenced: &BTreeSet<String>) -> Option<Rel> {
    for _ in 0..6 {
        let mut g = Gen::new(rng, fenced, "");
        g.conservative = true;
        g.begin_file(0, "la", &BTreeSet::new());
        g.small_program();
        let lib_text = g.out.clone();
        // K: a plain class without parents (its block is self-contained)
        let cands: Vec<usize> = (0..g.classes.len()).filter(|&i| !g.classes[i].is_exception && !g.interfaces.contains(&i) && g.classes[i].parents.is_empty()).collect();
        // or a function with primitive parameters and result
        let fcands: Vec<usize> = (0..g.funs.len())
            .filter(|&i| g.funs[i].raises.is_empty() && !matches!(g.funs[i].ret, crate::gen::Ty::Class(_)) && g.funs[i].params.iter().all(|(_, t, _)| !matches!(t, crate::gen::Ty::Class(_))))
            .collect();
        let use_fun = !fcands.is_empty() && (cands.is_empty() || g.rng.chance(1, 2));
        let (ci, fi) = if use_fun { (usize::MAX, *g.rng.pick(&fcands)) } else {
            match cands.last() {
                Some(c) => (*c, usize::MAX),
                None => continue,
            }
        };
        // the user file is self-contained: it sees nothing of lib while its body is generated
        g.begin_file(1, "ua", &BTreeSet::new());
        g.small_program();
        let body = g.out.clone();
        let vis: BTreeSet<usize> = [0usize].into_iter().collect();
        g.visible_files = vis;
        let mut kind = if use_fun { 1 } else { [0u64, 0, 2, 3, 4, 5, 6][g.rng.below(7) as usize] };
        if kind == 4 && fenced.contains("cross_file_variable") {
            kind = 0;
        }
        let mut lib_text = lib_text;
        let (use_line, k_block, without) = match kind {
            1 => {
                let fname = g.funs[fi].name.clone();
                let l = g.call_line(fi);
                let (b, w) = def_block(&lib_text, &format!("def {fname}"));
                (l, b, w)
            }
            2 | 3 => {
                // the class as a parent of a class of the other file (2), or a member of an
                // instance accessed in the other file (3)
                let c = g.classes[ci].clone();
                let kname = c.name.clone();
                let (b, w) = class_block(&lib_text, &kname);
                let member = c.fields.first().map(|(f, _)| format!(".{f}")).or_else(|| c.methods.iter().find(|m| m.params.is_empty()).map(|m| format!(".{}()", m.name)));
                if kind == 2 {
                    if !c.args.is_empty() {
                        continue;
                    }
                    let mut l = format!("class UaChild9: {kname}\n    def uaf9: Int := 1\n\ndef uause9 := UaChild9()\n");
                    if let Some(m) = &member {
                        l.push_str(&format!("def uaacc9 := uause9{m}\n"));
                    }
                    (l, b, w)
                } else {
                    let m = match member {
                        Some(m) => m,
                        None => continue,
                    };
                    let ctor = g.use_line(ci);
                    let var = ctor.split_whitespace().nth(1).unwrap_or("x").to_string();
                    (format!("{ctor}def uaacc9 := {var}{m}\n"), b, w)
                }
            }
            4 => {
                // a top-level constant of the other file
                let line = "def fin laconst9 := 7\n".to_string();
                let without = lib_text.clone();
                lib_text.push_str(&line);
                ("def uause9: Int := laconst9 + 1\n".to_string(), line, without)
            }
            5 => {
                // an exception class of the other file, raised and handled here
                let line = "class LaErr9(msg: Str): Exception(msg)\n".to_string();
                let without = lib_text.clone();
                lib_text.push_str(&line);
                (
                    "def uaraise9(x: Int) -> Int raise [LaErr9] =>\n    if x < 0 then\n        raise LaErr9(\"m\")\n    else\n        return 1\n\ndef uah9 := uaraise9(3) handle\n    err: LaErr9 => 0\n".to_string(),
                    line,
                    without,
                )
            }
            6 => {
                // an interface of the other file as a parameter type
                let block = "type LaIface9\n    def lam9(self) -> Int\n\n".to_string();
                let without = lib_text.clone();
                lib_text.push_str(&block);
                ("def uaf9(p: LaIface9) -> Int => p.lam9()\n".to_string(), block, without)
            }
            _ => {
                let kname = g.classes[ci].name.clone();
                let l = g.use_line(ci);
                let (b, w) = class_block(&lib_text, &kname);
                (l, b, w)
            }
        };
        if k_block.is_empty() {
            continue;
        }
        let feats = corpus::features_of(
            &[SrcFile { path: "lib.mamba".into(), text: lib_text.clone() }, SrcFile { path: "user.mamba".into(), text: format!("{body}{use_line}") }],
            &corpus::builtin_names(),
        );
        if feats.iter().any(|f| fenced.contains(f)) {
            continue;
        }
        return Some(Rel::Visibility {
            lib: SrcFile { path: "lib.mamba".into(), text: lib_text },
            user_body: SrcFile { path: "pkg/user.mamba".into(), text: body },
            k_block,
            use_line,
            lib_without_def: SrcFile { path: "lib.mamba".into(), text: without },
        });
    }
    None
}

/// Generate one scenario while executing it (fault placement looks at the profile of earlier
/// steps).  The returned scenario is fully explicit; re-executing it gives the same outcome.
pub fn gen_and_run(seed: u64, index: u64, scratch: &str, cfg: &GenCfg, fenced: &BTreeSet<String>) -> (C13Scenario, HistOutcome) {
    let mut rng = Rng::new(seed).fork(index.wrapping_mul(2) + 1);
    let builtins = corpus::builtin_names();
    let root_name = if !fenced.contains("glob_meta_in_project_path") && rng.chance(1, 6) { rng.pick(ROOTS_GLOB).to_string() } else { rng.pick(ROOTS).to_string() };
    let nfiles = match rng.below(10) {
        0 | 1 => 1,
        2..=4 => 2,
        5..=7 => 3,
        8 => 4,
        _ => 5,
    };
    let (files, bystanders, xfaults) = gen_project(&mut rng, fenced, &builtins, nfiles);
    let mut layout = Layout::default();
    match rng.below(10) {
        0 | 1 => layout.src = Some(rng.pick(&["custom_src", "source code", "."]).to_string()),
        // ("src": the output directory IS the source directory, outputs lie next to the sources)
        2 | 3 => layout.target = Some(rng.pick(&["out", "build.d", "py out", "src"]).to_string()),
        4 => {
            layout.src = Some("custom_src".into());
            layout.target = Some("out".into());
        }
        5 => {
            let f = rng.pick(&files).path.clone();
            if !f.contains(crate::c13::BAD_BYTE) {
                layout.src_file = Some(f);
            }
        }
        _ => {}
    }
    if layout.src.as_deref() == Some(".") {
        // source directory = project directory: the output directory then lies inside the source tree
        layout.target = Some("out".into());
    }
    // how the arguments are written
    if rng.chance(1, 4) {
        layout.src_form = rng.pick(&["abs", "slash", "dotdot", "symlink"]).to_string();
        if layout.src.as_deref() == Some(".") {
            layout.src_form = String::new();
        }
    }
    if rng.chance(1, 4) {
        layout.target_form = rng.pick(&["abs", "slash", "dotdot", "abs_outside", "symlink"]).to_string();
    }
    // symbolic links inside the source tree: a linked file, or a linked directory
    // (not when the outputs go into the source tree: they would be written through the link,
    // and the judge looks at the physical tree)
    if layout.src.as_deref() != Some(".") && !(layout.target.as_deref() == Some("src") && layout.src.is_none()) && rng.chance(1, 6) {
        let f = rng.pick(&files).path.clone();
        let first = f.split('/').next().unwrap_or("").to_string();
        if f.contains('/') && rng.chance(1, 2) {
            layout.links.push(first);
        } else {
            layout.links.push(f);
        }
    }
    // one directory reachable under two names: a directory of value-only files (nothing that
    // could clash by name when it is seen twice) and an alias for it that sorts before or after
    let mut files = files;
    let mut xfaults = xfaults;
    if layout.src.as_deref() != Some(".") && layout.links.is_empty() && layout.src_file.is_none() && files.len() <= 3 && !(layout.target.as_deref() == Some("src") && layout.src.is_none()) && rng.chance(1, 7) {
        let alias = if rng.chance(1, 2) { "aalias" } else { "zalias" };
        let text = format!("def shval{} := {}\nprint(\"shared\")\n", rng.below(90), rng.below(90));
        files.push(SrcFile { path: "shared/inc.mamba".into(), text: text.clone() });
        files.push(SrcFile { path: format!("{alias}/inc.mamba"), text });
        xfaults.push(None);
        xfaults.push(None);
        layout.aliases.push((alias.to_string(), "shared".to_string()));
    }
    // files elsewhere in the project directory that must be ignored
    let mut outside: Vec<SrcFile> = vec![];
    if layout.src.as_deref() != Some(".") {
        let sname = layout.src.clone().unwrap_or_else(|| "src".into());
        for (p, t) in [
            (format!("{sname}2/ignored.mamba"), "def ignored := 1\n"),
            (format!("{sname}.mamba"), "def alsoignored := $\n"),
            ("docs/readme.md".to_string(), "docs\n"),
            ("x{sname}/deep/other.mamba".replace("{sname}", &sname), "class\n"),
        ] {
            if rng.chance(1, 3) {
                outside.push(SrcFile { path: p, text: t.to_string() });
            }
        }
    }
    let mut sc = C13Scenario {
        property: "C13".into(),
        seed,
        index,
        root_name,
        layout,
        annotate: rng.chance(1, 2),
        session: rng.chance(1, 3),
        tmpdir: match rng.below(8) {
            0 => "missing".into(),
            1 => "private".into(),
            _ => String::new(),
        },
        history: vec![],
        relations: vec![],
        expect: None,
    };
    let mut h = HistExec::new(scratch, &sc);
    let mut push = |sc: &mut C13Scenario, h: &mut HistExec, op: Op| {
        let i = sc.history.len();
        h.apply(i, &op);
        sc.history.push(op);
        i
    };
    let transpile = |rng: &mut Rng, h: &HistExec, cli_permille: u64| Op::Transpile {
        hash_seed: if rng.chance(1, 4) { rng.range(0, 32) } else { rng.next() },
        readdir_seed: if rng.chance(1, 3) { 0 } else { rng.next() | 1 },
        plan: benign_plan(rng, &h.last_counters),
        crash_at: None,
        disk_budget: None,
        cli: rng.below(1000) < cli_permille,
        input_override: None,
    };

    let mut cur_files = files.clone();
    let mut cur_by = bystanders.clone();
    let v0 = push(&mut sc, &mut h, Op::Project { files: cur_files.clone(), bystanders: cur_by.clone(), outside: outside.clone(), faulty: None, faulty2: None, note: "initial".into() });
    // order relation on the initial version
    if cur_files.len() >= 2 {
        let perms = if (cfg.all_perms && cur_files.len() <= 4) || cur_files.len() <= 3 {
            all_perms(cur_files.len())
        } else {
            let mut p = vec![(0..cur_files.len()).rev().collect::<Vec<usize>>()];
            for _ in 0..(if cfg.all_perms { 23 } else { 4 }) {
                p.push(random_perm(&mut rng, cur_files.len()));
            }
            p
        };
        sc.relations.push(Rel::Order { op: v0, perms });
    }
    if rng.chance(1, 3) {
        let mut entries = vec![SrcFile { path: "notes.txt".into(), text: "left by somebody else\n".into() }];
        if rng.chance(1, 2) {
            let f = rng.pick(&cur_files).clone();
            entries.push(SrcFile { path: mirrored(&f.path, &sc.layout), text: format!("# stale output that is much longer than anything generated\n{}", "x = 1\n".repeat(rng.range(20, 400) as usize)) });
        }
        if rng.chance(1, 3) {
            entries.push(SrcFile { path: "old/zzz.py".into(), text: "print('stale unrelated')\n".into() });
        }
        if rng.chance(1, 4) {
            entries.push(SrcFile { path: "emptydir/".into(), text: String::new() });
        }
        // somebody's files inside a directory that will hold mirrored outputs
        if rng.chance(1, 2) {
            if let Some(f) = cur_files.iter().find(|f| f.path.contains('/')) {
                let m = mirrored(&f.path, &sc.layout);
                if let Some(d) = std::path::Path::new(&m).parent().map(|d| d.to_string_lossy().into_owned()).filter(|d| !d.is_empty()) {
                    entries.push(SrcFile { path: format!("{d}/__init__.py"), text: "# hand-written\n".into() });
                    entries.push(SrcFile { path: format!("{d}/data.json"), text: "{}\n".into() });
                }
            }
        }
        push(&mut sc, &mut h, Op::Prepopulate { entries });
    }
    let t = transpile(&mut rng, &h, cfg.cli_permille);
    push(&mut sc, &mut h, t);

    let rounds = rng.range(1, cfg.rounds_max);
    let mut last_valid_version = v0;
    let mut edit_no = 0;
    for _ in 0..rounds {
        // ---- maybe a faulted run followed by a clean one
        if cfg.faults && !h.last_counters.is_empty() && rng.chance(3, 5) {
            let (plan, crash_at, disk_budget) = random_fault(&mut rng, &h.last_counters, h.last_calls, &h.last_log, &h.last_log_seq);
            let mut plan = plan;
            plan.extend(benign_plan(&mut rng, &h.last_counters));
            push(&mut sc, &mut h, Op::Transpile { hash_seed: rng.next(), readdir_seed: rng.next() | 1, plan, crash_at, disk_budget, cli: false, input_override: None });
            let t = transpile(&mut rng, &h, 0);
            push(&mut sc, &mut h, t);
            continue;
        }
        // ---- an edit of the project, then a run
        edit_no += 1;
        let tag = format!("e{edit_no}");
        let mut faulty = None;
        let note;
        match rng.below(12) {
            0 | 1 => {
                // exactly one file faulty, then repaired
                let k = rng.below(cur_files.len().max(1) as u64) as usize;
                if cur_files.is_empty() {
                    continue;
                }
                let (mut line, mut kind) = fault_line(&mut rng, &tag, fenced);
                // a type fault that exists only because of a definition in another file
                if k < xfaults.len() && cur_files[k].path == files.get(k).map(|f| f.path.clone()).unwrap_or_default() {
                    if let Some(x) = &xfaults[k] {
                        if rng.chance(1, 2) {
                            line = x.clone();
                            kind = "crossfile_type";
                        }
                    }
                }
                let mut fv = cur_files.clone();
                fv[k].text = format!("{}{}", fv[k].text, line);
                faulty = Some(Faulty { path: fv[k].path.clone(), line: line.clone(), at_top: false });
                note = format!("make_faulty:{kind}:{}", fv[k].path);
                push(&mut sc, &mut h, Op::Project { files: fv, bystanders: cur_by.clone(), outside: vec![], faulty: faulty.clone(), faulty2: None, note });
                let t = transpile(&mut rng, &h, cfg.cli_permille);
                push(&mut sc, &mut h, t);
                // repair
                let rv = push(&mut sc, &mut h, Op::Project { files: cur_files.clone(), bystanders: cur_by.clone(), outside: vec![], faulty: None, faulty2: None, note: "repair".into() });
                last_valid_version = rv;
                let t = transpile(&mut rng, &h, cfg.cli_permille);
                push(&mut sc, &mut h, t);
                continue;
            }
            2 | 3 => {
                // add an unrelated file
                let prefix = format!("u{}", (b'a' + (edit_no % 20) as u8) as char);
                let used: BTreeSet<String> = cur_files.iter().map(|f| f.path.clone()).collect();
                let mut path = format!("{}.mamba", tag);
                for _ in 0..4 {
                    let cand = pick_paths(&mut rng, 1).pop().unwrap();
                    let base = std::path::Path::new(&cand).file_name().unwrap().to_string_lossy().into_owned();
                    if !used.iter().any(|u| u.ends_with(&base)) {
                        path = cand;
                        break;
                    }
                }
                let mut text = String::new();
                for attempt in 0..12 {
                    let t = {
                        let mut g = Gen::new(&mut rng, fenced, &prefix);
                        g.conservative = true;
                        g.small_program();
                        g.out.clone()
                    };
                    let feats = corpus::features_of(&[SrcFile { path: path.clone(), text: t.clone() }], &builtins);
                    text = t;
                    if !feats.iter().any(|f| fenced.contains(f)) {
                        break;
                    }
                    if attempt == 11 {
                        text = format!("def {prefix}only := 1\n");
                    }
                }
                // an unrelated file may import from a module that other files import from too —
                // another name, used only here
                if let Some((module, _)) = EXT_MODULES.iter().find(|(m, _)| cur_files.iter().any(|f| f.text.contains(&format!("from {m} import ")))) {
                    if rng.chance(2, 3) {
                        text = format!("from {module} import Xq{prefix}Fresh\n{text}def {prefix}xq(x: Xq{prefix}Fresh) -> Xq{prefix}Fresh => x\n");
                    }
                }
                cur_files.push(SrcFile { path, text });
                note = "add_unrelated".to_string();
                let ev = push(&mut sc, &mut h, Op::Project { files: cur_files.clone(), bystanders: cur_by.clone(), outside: vec![], faulty: None, faulty2: None, note });
                sc.relations.push(Rel::Interference { base_op: last_valid_version, ext_op: ev });
                last_valid_version = ev;
            }
            4 => {
                // rename so that the directory walk meets the same files in another order
                let perm = random_perm(&mut rng, cur_files.len());
                let mut fv = cur_files.clone();
                for (rank, &i) in perm.iter().enumerate() {
                    let p = std::path::Path::new(&cur_files[i].path);
                    let base = p.file_name().unwrap().to_string_lossy().into_owned();
                    let dir = if rng.chance(1, 2) { String::new() } else { format!("{}/", rng.pick(&["pkg", "zz", "0first"])) };
                    fv[i].path = format!("{}{}{}", dir, (b'a' + rank as u8) as char, base);
                }
                if sc.layout.src_file.is_some() {
                    continue;
                }
                note = "rename_order".to_string();
                let rv = push(&mut sc, &mut h, Op::Project { files: fv.clone(), bystanders: cur_by.clone(), outside: vec![], faulty: None, faulty2: None, note });
                sc.relations.push(Rel::SameTexts { op_a: last_valid_version, op_b: rv });
                cur_files = fv;
                last_valid_version = rv;
            }
            5 => {
                // shrink the last file so that its output gets shorter
                if let Some(last) = cur_files.last_mut() {
                    if sc.layout.src_file.as_deref() == Some(last.path.as_str()) || sc.layout.src_file.is_none() {
                        last.text = format!("def {tag}z := 1\n");
                    }
                }
                note = "shrink_last".to_string();
                let rv = push(&mut sc, &mut h, Op::Project { files: cur_files.clone(), bystanders: cur_by.clone(), outside: vec![], faulty: None, faulty2: None, note });
                last_valid_version = rv;
            }
            6 => {
                // delete the last file (its stale output stays, which is fine)
                if cur_files.len() > 1 && sc.layout.src_file.as_deref() != cur_files.last().map(|f| f.path.as_str()) {
                    cur_files.pop();
                }
                note = "delete_last".to_string();
                let rv = push(&mut sc, &mut h, Op::Project { files: cur_files.clone(), bystanders: cur_by.clone(), outside: vec![], faulty: None, faulty2: None, note });
                last_valid_version = rv;
            }
            10 => {
                // two files with the SAME fault at the SAME position (files copied from one
                // template): both must be reported, each with its own name; then repaired
                if cur_files.len() < 2 || sc.layout.src_file.is_some() {
                    continue;
                }
                let i = rng.below(cur_files.len() as u64) as usize;
                let j = (i + 1 + rng.below(cur_files.len() as u64 - 1) as usize) % cur_files.len();
                if cur_files[i].text.contains('\r') || cur_files[j].text.contains('\r') || cur_files[i].text.starts_with("from ") || cur_files[j].text.starts_with("from ") {
                    continue;
                }
                let (line, kind) = match rng.below(3) {
                    0 => ("def zzsame9 := $\n".to_string(), "lexical"),
                    1 => ("def zzsame9: Int :=\n".to_string(), "syntax"),
                    _ => ("def zzsame9: Int := \"a\"\n".to_string(), "type"),
                };
                let mut fv = cur_files.clone();
                fv[i].text = format!("{line}{}", fv[i].text);
                fv[j].text = format!("{line}{}", fv[j].text);
                // the two definitions must not clash by name: the second file gets another name of the same length
                let line2 = line.replace("zzsame9", "zzsamf9");
                fv[j].text = fv[j].text.replacen(&line, &line2, 1);
                let f1 = Faulty { path: fv[i].path.clone(), line: line.clone(), at_top: true };
                let f2 = Faulty { path: fv[j].path.clone(), line: line2.clone(), at_top: true };
                note = format!("make_faulty:{kind}:two");
                push(&mut sc, &mut h, Op::Project { files: fv, bystanders: cur_by.clone(), outside: vec![], faulty: Some(f1), faulty2: Some(f2), note });
                let t = transpile(&mut rng, &h, cfg.cli_permille);
                push(&mut sc, &mut h, t);
                let rv = push(&mut sc, &mut h, Op::Project { files: cur_files.clone(), bystanders: cur_by.clone(), outside: vec![], faulty: None, faulty2: None, note: "repair".into() });
                last_valid_version = rv;
                let t = transpile(&mut rng, &h, cfg.cli_permille);
                push(&mut sc, &mut h, t);
                continue;
            }
            8 => {
                // the same project and output directory under another configuration: a single
                // file as input (or the directory when the scenario uses a single file), and/or
                // the other annotate value — for this one run
                if cur_files.is_empty() {
                    continue;
                }
                let o = InputOverride {
                    src_file: if sc.layout.src_file.is_some() { None } else if rng.chance(2, 3) { Some(rng.pick(&cur_files).path.clone()).filter(|f| !f.contains(crate::c13::BAD_BYTE)) } else { None },
                    annotate: if rng.chance(1, 2) { !sc.annotate } else { sc.annotate },
                };
                let mut t = transpile(&mut rng, &h, cfg.cli_permille);
                if let Op::Transpile { input_override, .. } = &mut t {
                    *input_override = Some(o);
                }
                push(&mut sc, &mut h, t);
                // and back to the scenario's own configuration
                let t = transpile(&mut rng, &h, cfg.cli_permille);
                push(&mut sc, &mut h, t);
                continue;
            }
            9 => {
                // a file replaced by a directory of the same stem: `x.mamba` becomes `x/inner.mamba`
                if sc.layout.src_file.is_some() || cur_files.is_empty() {
                    continue;
                }
                let k = rng.below(cur_files.len() as u64) as usize;
                let p = std::path::Path::new(&cur_files[k].path).with_extension("");
                let newp = format!("{}/inner.mamba", p.to_string_lossy());
                if cur_files.iter().any(|f| f.path == newp) {
                    continue;
                }
                cur_files[k].path = newp;
                note = "file_to_dir".to_string();
                let rv = push(&mut sc, &mut h, Op::Project { files: cur_files.clone(), bystanders: cur_by.clone(), outside: vec![], faulty: None, faulty2: None, note });
                last_valid_version = rv;
            }
            _ => {
                // only bystanders change; plain repeated run into the populated directory
                if rng.chance(1, 2) {
                    cur_by.push(SrcFile { path: format!("{tag}.txt"), text: "bystander\n".into() });
                    push(&mut sc, &mut h, Op::Project { files: cur_files.clone(), bystanders: cur_by.clone(), outside: vec![], faulty: None, faulty2: None, note: "bystander".into() });
                }
            }
        }
        let _ = faulty;
        let t = transpile(&mut rng, &h, cfg.cli_permille);
        push(&mut sc, &mut h, t);
    }
    // last act, sometimes: an obstacle in the output directory, then a run
    let same_dir = sc.layout.target.as_deref() == Some("src") && sc.layout.src.is_none();
    if !cur_files.is_empty() && !same_dir && rng.chance(1, 6) {
        let f = rng.pick(&cur_files).clone();
        let m = mirrored(&f.path, &sc.layout);
        let entry = if rng.chance(1, 5) {
            // the output directory itself is a file
            SrcFile { path: ".".into(), text: String::new() }
        } else if rng.chance(1, 2) || !m.contains('/') {
            // a directory where the mirrored file must go
            SrcFile { path: format!("{m}/"), text: String::new() }
        } else {
            // a file where a directory is needed
            let d = std::path::Path::new(&m).parent().unwrap().to_string_lossy().into_owned();
            SrcFile { path: d, text: "not a directory\n".into() }
        };
        // only when nothing is there yet (a directory cannot be put over an existing file here)
        push(&mut sc, &mut h, Op::Prepopulate { entries: vec![entry] });
        let t = transpile(&mut rng, &h, 0);
        push(&mut sc, &mut h, t);
    }
    if rng.chance(1, 2) {
        if let Some(r) = visibility_relation(&mut rng, fenced) {
            sc.relations.push(r);
        }
    }
    h.check_relations(&sc);
    h.cleanup();
    let out = HistOutcome { violations: h.violations, stats: h.stats };
    (sc, out)
}

// --------------------------------------------------------------------- fault enumeration

/// For one project: every fault kind at every call index of every tree-call class, and a crash
/// at every call that touches the tree — each as its own two-step history (faulted run, clean
/// run) from the same prepared state.
pub fn enumerate_faults(seed: u64, index: u64, scratch: &str, fenced: &BTreeSet<String>, stride: usize) -> Vec<C13Scenario> {
    let mut rng = Rng::new(seed ^ 0xE17).fork(index);
    let builtins = corpus::builtin_names();
    // every other enumerated project has at least two files: "between two file writes" exists
    let nfiles = (rng.range(1, 3) as usize).max(if index % 2 == 0 { 2 } else { 1 });
    let (files, bystanders, _) = gen_project(&mut rng, fenced, &builtins, nfiles);
    let base = C13Scenario {
        property: "C13".into(),
        seed,
        index: 1_000_000 + index * 10_000,
        root_name: "proj".into(),
        layout: Layout::default(),
        annotate: rng.chance(1, 2),
        session: false,
        tmpdir: String::new(),
        history: vec![Op::Project { files: files.clone(), bystanders, outside: vec![], faulty: None, faulty2: None, note: "enumeration".into() }],
        relations: vec![],
        expect: None,
    };
    let mut pre = base.clone();
    if rng.chance(1, 2) {
        let f = rng.pick(&files).clone();
        pre.history.push(Op::Prepopulate { entries: vec![SrcFile { path: mirrored(&f.path, &pre.layout), text: "# stale\n".repeat(60) }] });
    }
    // profile
    let mut prof = pre.clone();
    prof.history.push(Op::Transpile { hash_seed: 1, readdir_seed: 0, plan: vec![], crash_at: None, disk_budget: None, cli: false, input_override: None });
    let mut h = HistExec::new(scratch, &prof);
    for (i, op) in prof.history.iter().enumerate() {
        h.apply(i, op);
    }
    h.cleanup();
    if h.last_outcome != "ok" {
        return vec![];
    }
    let counters = h.last_counters.clone();
    let log = h.last_log.clone();
    let log_seq = h.last_log_seq.clone();
    let mut out = vec![];
    let mut add = |plan: Vec<PlanItem>, crash_at: Option<u64>, disk: Option<i64>, out: &mut Vec<C13Scenario>| {
        let mut s = pre.clone();
        s.index = base.index + out.len() as u64;
        s.history.push(Op::Transpile { hash_seed: 1, readdir_seed: 0, plan, crash_at, disk_budget: disk, cli: false, input_override: None });
        s.history.push(Op::Transpile { hash_seed: 2, readdir_seed: 0, plan: vec![], crash_at: None, disk_budget: None, cli: false, input_override: None });
        out.push(s);
    };
    let kinds: &[(&str, &[(&str, i64)])] = &[
        ("open_r", &[("errno", libc::EACCES as i64), ("errno", libc::EMFILE as i64), ("errno", libc::ENOENT as i64), ("errno", libc::EIO as i64)]),
        ("read", &[("errno", libc::EIO as i64)]),
        ("open_w", &[("errno", libc::ENOSPC as i64), ("errno", libc::EACCES as i64), ("errno", libc::EROFS as i64), ("errno", libc::EMFILE as i64)]),
        ("write", &[("short", 1), ("short", 37), ("eintr", 0), ("errno", libc::ENOSPC as i64), ("errno", libc::EIO as i64)]),
        ("mkdir", &[("errno", libc::ENOSPC as i64), ("errno", libc::EACCES as i64)]),
        ("opendir", &[("errno", libc::EACCES as i64)]),
        ("readdir", &[("errno", libc::EIO as i64), ("errno", 1000 + libc::EIO as i64)]),
        ("statx", &[("errno", libc::EACCES as i64)]),
    ];
    for (call, ks) in kinds {
        let n = counters.get(*call).cloned().unwrap_or(0);
        for nth in 0..n {
            for (kind, arg) in ks.iter() {
                add(vec![PlanItem { call: call.to_string(), nth, kind: kind.to_string(), arg: *arg }], None, None, &mut out);
            }
        }
    }
    // stub-side faults: a sample (they all fail before anything is written)
    for (call, en) in [("open_stub", libc::EMFILE), ("read_stub", libc::EIO), ("opendir_stub", libc::EACCES)] {
        let n = counters.get(call).cloned().unwrap_or(0);
        for nth in (0..n).step_by(5) {
            add(vec![PlanItem { call: call.to_string(), nth, kind: "errno".into(), arg: en as i64 }], None, None, &mut out);
        }
    }
    // crash at every call that touches the tree (and a stride through the rest)
    for (i, l) in log.iter().enumerate() {
        let tree = l.contains("$ROOT") || l.starts_with("write ") || l.starts_with("close ");
        if tree || i % (stride.max(1) * 8) == 0 {
            add(vec![], Some(log_seq.get(i).cloned().unwrap_or(i as u64 + 1)), None, &mut out);
        }
    }
    // disk budgets: every byte boundary would be too many; all multiples of a stride and the ends
    let total: i64 = log.iter().filter(|l| l.starts_with("write fd#")).filter_map(|l| l.rsplit("-> ").next().and_then(|n| n.trim().parse::<i64>().ok())).sum();
    let mut b = 0;
    while b <= total {
        add(vec![], None, Some(b), &mut out);
        b += (total / 12).max(1);
    }
    out
}

// --------------------------------------------------------------------- minimiser

fn fails_same(sc: &C13Scenario, class: &str, scratch: &str) -> bool {
    run_history(sc, scratch).violations.iter().any(|v| v.class == class)
}

pub fn minimise(sc: &C13Scenario, class: &str, scratch: &str, budget: &mut usize) -> C13Scenario {
    let mut best = sc.clone();
    let t0 = std::time::Instant::now();
    let allowance = std::time::Duration::from_secs(std::env::var("VERIF_MINIMISE_S").ok().and_then(|v| v.parse().ok()).unwrap_or(240));
    let mut attempt = |cand: C13Scenario, best: &mut C13Scenario, budget: &mut usize| -> bool {
        if *budget == 0 || cand == *best || t0.elapsed() > allowance {
            return false;
        }
        *budget -= 1;
        if fails_same(&cand, class, scratch) {
            *best = cand;
            true
        } else {
            false
        }
    };
    // relations: keep only what is needed
    {
        let mut c = best.clone();
        c.relations.clear();
        if !attempt(c, &mut best, budget) {
            let mut i = 0;
            while i < best.relations.len() {
                let mut c = best.clone();
                c.relations.remove(i);
                if !attempt(c, &mut best, budget) {
                    i += 1;
                }
            }
            // relation-only failure: the history is not needed
            let mut c = best.clone();
            c.history.retain(|op| matches!(op, Op::Project { .. }));
            attempt(c, &mut best, budget);
        }
    }
    // drop ops from the end, then anywhere (relations refer to op indices: only when there are none)
    if best.relations.iter().all(|r| matches!(r, Rel::Visibility { .. })) {
        loop {
            let mut progressed = false;
            let mut i = best.history.len();
            while i > 0 {
                i -= 1;
                let mut c = best.clone();
                c.history.remove(i);
                if attempt(c, &mut best, budget) {
                    progressed = true;
                }
            }
            if !progressed {
                break;
            }
        }
    }
    // simplify steps
    for i in 0..best.history.len() {
        if let Op::Transpile { plan, crash_at, disk_budget, cli, .. } = best.history[i].clone() {
            {
                let mut c = best.clone();
                if let Op::Transpile { input_override, .. } = &mut c.history[i] {
                    *input_override = None;
                }
                attempt(c, &mut best, budget);
            }
            for k in (0..plan.len()).rev() {
                let mut c = best.clone();
                if let Op::Transpile { plan: p, .. } = &mut c.history[i] {
                    if k < p.len() {
                        p.remove(k);
                    }
                }
                attempt(c, &mut best, budget);
            }
            if crash_at.is_some() || disk_budget.is_some() || cli {
                let mut c = best.clone();
                if let Op::Transpile { crash_at, disk_budget, cli, .. } = &mut c.history[i] {
                    *crash_at = None;
                    *disk_budget = None;
                    *cli = false;
                }
                attempt(c, &mut best, budget);
            }
            for s in [0u64, 1, 2, 3] {
                let mut c = best.clone();
                if let Op::Transpile { hash_seed, readdir_seed, .. } = &mut c.history[i] {
                    if *hash_seed == s && *readdir_seed == 0 {
                        break;
                    }
                    *hash_seed = s;
                    *readdir_seed = 0;
                }
                if attempt(c, &mut best, budget) {
                    break;
                }
            }
        }
    }
    // layout, names
    {
        let mut c = best.clone();
        c.layout = Layout::default();
        attempt(c, &mut best, budget);
        let mut c = best.clone();
        c.layout.links.clear();
        attempt(c, &mut best, budget);
        let mut c = best.clone();
        c.layout.aliases.clear();
        attempt(c, &mut best, budget);
        let mut c = best.clone();
        c.session = false;
        attempt(c, &mut best, budget);
        let mut c = best.clone();
        c.tmpdir = String::new();
        attempt(c, &mut best, budget);
        let mut c = best.clone();
        c.root_name = "proj".into();
        attempt(c, &mut best, budget);
        let mut c = best.clone();
        c.annotate = false;
        attempt(c, &mut best, budget);
    }
    // files of project versions: drop bystanders, drop files, shrink text
    if best.relations.iter().all(|r| matches!(r, Rel::Visibility { .. })) {
        for i in 0..best.history.len() {
            if let Op::Project { .. } = best.history[i] {
                let mut c = best.clone();
                if let Op::Project { bystanders, .. } = &mut c.history[i] {
                    bystanders.clear();
                }
                attempt(c, &mut best, budget);
                let n = if let Op::Project { files, .. } = &best.history[i] { files.len() } else { 0 };
                for k in (0..n).rev() {
                    let mut c = best.clone();
                    if let Op::Project { files, .. } = &mut c.history[i] {
                        if k < files.len() && files.len() > 1 {
                            files.remove(k);
                        }
                    }
                    attempt(c, &mut best, budget);
                }
                let n = if let Op::Project { files, .. } = &best.history[i] { files.len() } else { 0 };
                for k in 0..n {
                    let mut chunk = if let Op::Project { files, .. } = &best.history[i] { files[k].text.lines().count() / 2 } else { 0 };
                    while chunk >= 1 && *budget > 0 {
                        let mut start = 0;
                        loop {
                            let lines: Vec<String> = if let Op::Project { files, .. } = &best.history[i] { files[k].text.lines().map(|s| s.to_string()).collect() } else { vec![] };
                            if start >= lines.len() || *budget == 0 {
                                break;
                            }
                            let end = (start + chunk).min(lines.len());
                            let mut kept = lines[..start].to_vec();
                            kept.extend_from_slice(&lines[end..]);
                            let mut c = best.clone();
                            if let Op::Project { files, .. } = &mut c.history[i] {
                                files[k].text = kept.join("\n") + "\n";
                            }
                            if !attempt(c, &mut best, budget) {
                                start = end;
                            }
                        }
                        chunk /= 2;
                    }
                }
            }
        }
    }
    best
}

// --------------------------------------------------------------------- the check

fn envnum(name: &str, default: usize) -> usize {
    std::env::var(name).ok().and_then(|v| v.parse().ok()).unwrap_or(default)
}

pub fn run_check(tier_name: &str, seed: u64, verif_dir: &str) -> i32 {
    let t0 = Instant::now();
    let thorough = tier_name == "thorough";
    let entries = findings::load(verif_dir);
    let fenced = findings::fenced(&entries, "C13");
    // file programs come from the hash-stable part of the C12 generator: C12's open findings are fenced too
    let mut fenced_all = fenced.clone();
    fenced_all.extend(findings::fenced(&entries, "C12"));
    let scratch = scratch_base("c13");
    let mut exit = 0;
    let mut known_reproduced = vec![];

    for e in entries.iter().filter(|e| e.property == "C13" && !e.witness.is_empty()) {
        let path = format!("{verif_dir}/{}", e.witness);
        let sc: C13Scenario = match std::fs::read_to_string(&path).map_err(|e| e.to_string()).and_then(|t| serde_json::from_str(&t).map_err(|e| e.to_string())) {
            Ok(s) => s,
            Err(err) => {
                println!("HARNESS-ERROR cannot load witness {path}: {err}");
                let _ = std::fs::remove_dir_all(&scratch);
                return 2;
            }
        };
        let rep = replay(&sc, &scratch);
        match (e.open, rep) {
            (true, Some(d)) => {
                println!("KNOWN-FINDING: property=C13 {} {} [{}]", e.id, e.what, d);
                known_reproduced.push(e.id.clone());
            }
            (true, None) => println!("note: witness of open finding {} no longer reproduces (fixed?)", e.id),
            (false, Some(d)) => {
                println!("fixed finding {} has returned: {}", e.id, d);
                println!("VIOLATION property=C13 replay={path}");
                exit = 1;
            }
            (false, None) => {}
        }
    }

    let n_clean = envnum("VERIF_C13_CLEAN", if thorough { 1500 } else { 220 });
    let n_faulty = envnum("VERIF_C13_FAULTY", if thorough { 3500 } else { 380 });
    let n_enum = envnum("VERIF_C13_ENUM", if thorough { 40 } else { 3 });
    let cli_permille = envnum("VERIF_C13_CLI_PERMILLE", if thorough { 500 } else { 150 }) as u64;
    let w = workers();

    #[derive(Clone)]
    struct Task {
        index: u64,
        faults: bool,
    }
    let mut tasks = vec![];
    for i in 0..n_clean {
        tasks.push(Task { index: i as u64, faults: false });
    }
    for i in 0..n_faulty {
        tasks.push(Task { index: 100_000 + i as u64, faults: true });
    }
    let results: Vec<(C13Scenario, HistOutcome)> = par_map(&tasks, w, |_, t| {
        let cfg = GenCfg { faults: t.faults, rounds_max: if thorough { 5 } else { 3 }, cli_permille: if t.faults { 0 } else { cli_permille }, all_perms: thorough };
        gen_and_run(seed, t.index, &scratch, &cfg, &fenced_all)
    });

    // fault enumeration on sampled projects
    let enum_ids: Vec<u64> = (0..n_enum as u64).collect();
    let enum_scen: Vec<C13Scenario> = par_map(&enum_ids, w, |_, &i| enumerate_faults(seed, i, &scratch, &fenced_all, if thorough { 1 } else { 4 })).into_iter().flatten().collect();
    let enum_results: Vec<HistOutcome> = par_map(&enum_scen, w, |_, sc| run_history(sc, &scratch));

    let mut stats = Stats::default();
    let mut all: Vec<(u64, C13Scenario, Viol)> = vec![];
    let mut scen_count = 0u64;
    let mut histories_with_ok_and_err = 0u64;
    for (sc, out) in results.iter() {
        scen_count += 1;
        stats.merge(&out.stats);
        if out.stats.steps_ok > 0 && out.stats.steps_err > 0 {
            histories_with_ok_and_err += 1;
        }
        for v in &out.violations {
            all.push((sc.index, sc.clone(), v.clone()));
        }
    }
    let mut enum_stats = Stats::default();
    for (sc, out) in enum_scen.iter().zip(enum_results.iter()) {
        scen_count += 1;
        enum_stats.merge(&out.stats);
        for v in &out.violations {
            all.push((sc.index, sc.clone(), v.clone()));
        }
    }
    stats.merge(&enum_stats);

    // violations that are a listed open finding (by signature) are attributed, not reported
    let mut sig_hits: BTreeMap<String, usize> = BTreeMap::new();
    all.retain(|(_, _, v)| {
        for e in entries.iter().filter(|e| e.open && e.property == "C13") {
            if e.sig_matches(&v.class, &v.fired, &v.outcome) {
                *sig_hits.entry(e.id.clone()).or_insert(0) += 1;
                return false;
            }
        }
        true
    });
    for (id, n) in &sig_hits {
        if !known_reproduced.contains(id) {
            if let Some(e) = entries.iter().find(|e| &e.id == id) {
                println!("KNOWN-FINDING: property=C13 {} {} [{} occurrences in this run]", e.id, e.what, n);
                known_reproduced.push(id.clone());
            }
        }
    }
    let n_viol = all.len();
    let mut replay_path = String::new();
    let pick = std::env::var("VERIF_PICK").unwrap_or_default();
    // Candidates in scenario order.  A violation is reported once its explicit scenario fails
    // again by itself, minimises and replays; a candidate that does not fail again (code under
    // test that behaves differently from run to run in a way no seam owns, e.g. threads it
    // lets run freely) is skipped in favour of the next one — only when none of them
    // reproduces is the run a harness error.
    let mut cands: Vec<(u64, C13Scenario, Viol)> = all.iter().filter(|(_, _, v)| pick.is_empty() || v.detail.contains(&pick) || v.class.contains(&pick)).cloned().collect();
    cands.sort_by_key(|(i, _, v)| (*i, v.step));
    let mut not_reproduced: Vec<String> = vec![];
    for (_, sc, v) in cands.iter().take(8) {
        if v.class == "harness" {
            println!("HARNESS-ERROR {}", v.detail);
            let _ = std::fs::remove_dir_all(&scratch);
            return 2;
        }
        // first make sure the explicit scenario fails by itself (it was generated while running)
        let again = run_history(sc, &scratch);
        if !again.violations.iter().any(|x| x.class == v.class) {
            not_reproduced.push(format!("scenario {} did not fail again with class {}", sc.index, v.class));
            continue;
        }
        let mut budget = 250usize;
        let mut min = minimise(sc, &v.class, &scratch, &mut budget);
        min.expect = Some(Expect { class: v.class.clone(), detail: String::new() });
        let replayed = match replay(&min, &scratch) {
            Some(d) => Some((min, d)),
            None => {
                // the minimised form is flaky: fall back to the scenario as found
                let mut full = sc.clone();
                full.expect = Some(Expect { class: v.class.clone(), detail: String::new() });
                replay(&full, &scratch).map(|d| (full, d))
            }
        };
        match replayed {
            Some((mut min, d)) => {
                min.expect = Some(Expect { class: v.class.clone(), detail: d.clone() });
                let dir = format!("{verif_dir}/replays");
                let _ = std::fs::create_dir_all(&dir);
                let body = serde_json::to_string_pretty(&min).unwrap();
                replay_path = format!("{dir}/C13-{seed}-{}.json", &digest(body.as_bytes())[..12]);
                std::fs::write(&replay_path, body).expect("write replay");
                println!("violation {d}");
                println!("VIOLATION property=C13 replay={replay_path}");
                exit = 1;
                break;
            }
            None => {
                not_reproduced.push(format!("scenario {} (class {}) did not reproduce in a fresh replay", sc.index, v.class));
            }
        }
    }
    for n in &not_reproduced {
        println!("note: nondeterministic-replay: {n}");
    }
    if exit != 1 && !cands.is_empty() {
        println!("HARNESS-ERROR nondeterministic-replay: {} violating scenario(s), none failed again when re-executed", cands.len());
        let _ = std::fs::remove_dir_all(&scratch);
        return 2;
    }

    let wall = t0.elapsed().as_secs_f64();
    let sample = results
        .iter()
        .find(|(s, o)| s.history.len() >= 5 && o.stats.steps_with_fault_fired > 0)
        .or(results.first())
        .map(|(s, _)| {
            let mut s = s.clone();
            for op in s.history.iter_mut() {
                if let Op::Project { files, .. } = op {
                    for f in files.iter_mut() {
                        if f.text.len() > 300 {
                            f.text = format!("{}… [{} bytes]", f.text.chars().take(300).collect::<String>(), f.text.len());
                        }
                    }
                }
            }
            s.relations.retain(|r| !matches!(r, Rel::Visibility { .. }));
            serde_json::to_value(&s).unwrap()
        });
    let ev = json!({
        "property_id": "C13",
        "tier": tier_name,
        "seed": seed,
        "level": "fault_enumeration",
        "wall_s": wall,
        "violations": n_viol,
        "coverage": {
            "evaluations": stats.steps,
            "distinct_nontrivial": stats.trace_tree_pairs.len(),
            "rule": "one evaluation = one call of mamba::transpile_dir (real code; own process per step, or one process for all steps of a session history) against a scratch tree inside a seeded project history; directory order, hash keys, short reads/EINTR and — in the fault configuration — errno faults, short writes, a full disk or a process crash at a chosen intercepted call are injected at the libc boundary. distinct_nontrivial counts distinct (intercepted-call trace digest, resulting tree digest) pairs. The enumeration part injects every fault kind at every call index of every tree-call class and a crash at every tree-touching call for sampled projects.",
            "samples": [sample],
            "scenarios": scen_count,
            "histories_random": results.len(),
            "histories_enumerated": enum_scen.len(),
            "enumerated_projects": n_enum,
            "histories_with_ok_and_err_steps": histories_with_ok_and_err,
            "steps": {"ok": stats.steps_ok, "err": stats.steps_err, "crash": stats.steps_crash, "panic_or_abort": stats.steps_panic, "multi_file": stats.multi_file_steps},
            "faults_fired": stats.faults_fired,
            "perturbations_fired": stats.perturbations_fired,
            "steps_with_fault_fired": stats.steps_with_fault_fired,
            "ok_checked_under_fired_fault": stats.ok_under_fault_checked,
            "recoveries_checked": stats.recoveries_checked,
            "after_failed_run": {"tree_untouched": stats.err_tree_untouched, "prefix_of_expected": stats.err_tree_prefix, "other": stats.err_tree_other, "crash_between_two_file_writes": stats.crash_between_writes},
            "overwrote_longer_file": stats.overwrote_longer,
            "steps_with_obstacle_in_output_dir": stats.steps_with_obstacle,
            "source_paths_materialised_as_symlinks": stats.linked_sources,
            "alias_directories_materialised": stats.alias_directories,
            "deleted_in_target_tolerated": stats.deleted_in_target_tolerated,
            "single_faulty_file_rejections_checked": stats.single_faulty_rejected,
            "single_faulty_by_kind": stats.faulty_kinds_checked,
            "single_faulty_with_same_base_name_elsewhere": stats.same_base_name_checks,
            "faulty_edit_on_already_invalid_project_skipped": stats.fault_not_faulty,
            "relation_checks": stats.relation_checks,
            "relation_skipped": stats.relation_skipped,
            "sessions_started": stats.sessions_started, "steps_run_in_an_already_used_process": stats.steps_in_running_session,
            "cli_runs": stats.cli_runs, "cli_runs_with_unwritable_stderr": stats.cli_bad_stderr, "cli_skipped": stats.cli_skipped,
            "reference_runs": stats.reference_runs, "reference_panics": stats.reference_panics,
            "distinct_trees": stats.trees.len(),
            "logical_steps": stats.calls,
            "simulated_time": "0 (nothing in the system waits on a clock); logical_steps counts intercepted libc calls",
            "clock_calls": stats.clock_calls, "pid_calls": stats.pid_calls, "cwd_calls": stats.cwd_calls,
            "runs_per_hour": (stats.steps as f64 / wall * 3600.0) as u64,
            "known_findings_reproduced": known_reproduced,
            "known_finding_occurrences": sig_hits,
            "fenced_features": fenced_all.iter().collect::<Vec<_>>(),
            "components_real": ["mamba::transpile_dir, io.rs, lexer/parser/context/checker/generator", "glob, pathdiff, std::fs", "kernel VFS on a private tmpfs tree (deterministic store)", "src/main.rs (fault-free CLI layer, shipped binary with seeded getrandom preload)"],
            "components_simulated": ["outcome/length/errno of open, read, write, mkdir, opendir, readdir, statx", "disk capacity", "process crash at an intercepted call (real process death, tree survives)", "directory enumeration order", "getrandom (hash keys)", "clock, pid"],
        },
        "assumptions": [
            "the kernel VFS on the scratch tree is a deterministic store for single-threaded access",
            "process crash is modelled, power loss is not (the tool never calls fsync)",
            "projects of at most 5 files, histories of at most ~14 operations, one fault per step",
        ]
    });
    let _ = std::fs::create_dir_all(format!("{verif_dir}/evidence"));
    std::fs::write(format!("{verif_dir}/evidence/C13.json"), serde_json::to_string_pretty(&ev).unwrap()).expect("write evidence");
    println!(
        "C13 {}: {} steps in {} histories ({} enumerated), ok/err/crash/panic {}/{}/{}/{}, {} fault-fired steps, {} recoveries, {} distinct (trace, tree), relations {:?}, cli {} , {} violations, {:.1}s",
        tier_name, stats.steps, scen_count, enum_scen.len(), stats.steps_ok, stats.steps_err, stats.steps_crash, stats.steps_panic, stats.steps_with_fault_fired, stats.recoveries_checked, stats.trace_tree_pairs.len(), stats.relation_checks, stats.cli_runs, n_viol, wall
    );
    if n_viol > 0 {
        let mut classes: BTreeMap<String, usize> = BTreeMap::new();
        for (_, sc, v) in &all {
            let fault = match sc.history.get(v.step) {
                Some(Op::Transpile { plan, crash_at, disk_budget, .. }) => format!(
                    "{}{}{}",
                    plan.iter().filter(|p| !is_benign(p)).map(|p| format!("{}:{}", p.call, p.kind)).collect::<Vec<_>>().join("+"),
                    if crash_at.is_some() { "crash" } else { "" },
                    if disk_budget.is_some() { "disk" } else { "" }
                ),
                _ => String::new(),
            };
            *classes.entry(format!("{} [{}] {}", v.class, fault, v.detail.split(':').next().unwrap_or(""))).or_insert(0) += 1;
        }
        println!("violation classes: {:#?}", classes);
    }
    let _ = std::fs::remove_dir_all(&scratch);
    let _ = corpus::repo_dir();
    exit
}
