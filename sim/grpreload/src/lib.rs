//! LD_PRELOAD shim for the fault-free CLI layer: overrides only `getrandom`, so that the
//! shipped `mamba` binary runs with the hash keys the scenario dictates.
use libc::{c_uint, c_void, size_t, ssize_t};

static mut STATE: u64 = 0;
static mut INIT: bool = false;

#[no_mangle]
pub unsafe extern "C" fn getrandom(buf: *mut c_void, buflen: size_t, flags: c_uint) -> ssize_t {
    if !INIT {
        INIT = true;
        let v = libc::getenv(b"MSIM_HASH_SEED\0".as_ptr() as *const libc::c_char);
        if v.is_null() {
            STATE = 0;
        } else {
            STATE = libc::strtoul(v, std::ptr::null_mut(), 10) as u64 | (1u64 << 63);
        }
    }
    if STATE == 0 {
        return libc::syscall(libc::SYS_getrandom, buf, buflen, flags) as ssize_t;
    }
    let out = std::slice::from_raw_parts_mut(buf as *mut u8, buflen);
    let mut i = 0;
    while i < buflen {
        STATE = STATE.wrapping_add(0x9E3779B97F4A7C15);
        let mut z = STATE;
        z = (z ^ (z >> 30)).wrapping_mul(0xBF58476D1CE4E5B9);
        z = (z ^ (z >> 27)).wrapping_mul(0x94D049BB133111EB);
        z ^= z >> 31;
        for b in z.to_le_bytes() {
            if i < buflen {
                out[i] = b;
                i += 1;
            }
        }
    }
    buflen as ssize_t
}
